#!/bin/bash
# kill running vcheck drivers (python) and their solvers, matching by executable name only
for p in $(pgrep -x python3); do if tr '\0' ' ' < /proc/$p/cmdline | grep -q "vcheck"; then kill -9 $p; fi; done
killall -9 cbmc cargo-kani kani-driver 2>/dev/null
exit 0
