#!/bin/bash
# usage: tools/run_seeded.sh <seed-id> <property> [<property> ...]
# Applies /verif/seeded/<id>/patch.diff to /repo, runs the quick checks of the given properties,
# records what they report, and restores /repo. Never run two of these (or any other vcheck) at once.
set -u
id=$1; shift
cd /verif
if ! git -C /repo diff --quiet; then echo "/repo has uncommitted changes; refusing"; exit 3; fi
git -C /repo apply /verif/seeded/$id/patch.diff || exit 3
out=seeded/$id/detect.log
: > $out
for p in "$@"; do
  echo "=== ./vcheck $p --tier quick  (seed $id applied)" >> $out
  ./vcheck $p --tier quick --no-evidence >> $out 2>&1
  echo "exit=$?" >> $out
done
git -C /repo checkout -- .
git -C /repo diff --quiet && echo "repo restored" >> $out
grep -E "^(=== |exit=|VIOLATION|KNOWN-FINDING|INCONCLUSIVE|  failing)" $out | cut -c1-220
