HOOK_COMMITS = ["c2b1eb3", "037c496"]

NOT_APPLICABLE = {
    "C01": "Determinism over call histories / hash seeds: a bounded model checker re-executing the same symbolic input is equal to itself by construction, so 'run twice and compare' is vacuous; the one seeded component (std HashMap RandomState in bpm()) needs the getrandom FFI, and hashbrown+SipHash with symbolic keys did not finish symbolic execution in 900 s (DESIGN.md §7).",
    "C20": "Concurrency: Kani/CBMC does not model Rust threads or OS schedules; Send/Sync are compile-time facts. The single-threaded value semantics of the `sync` wrappers is covered under C10 (DESIGN.md §7).",
}

BMC = "bounded model checking of the compiled Rust code (Kani 0.68 -> CBMC 6.11 -> CaDiCaL SAT), symbolic inputs, counterexamples replayed natively"
TB = "Trusted: Kani/CBMC/CaDiCaL and Kani's std models, dev-profile semantics; harness reference models and the stubs listed in the evidence. "

CLAIMS = {
    "C02": {
        "text": "Gradual difficulty vs. the played prefix, decided structurally: from an arbitrary cursor state (struct literal under the representation invariant of new() + p x next(); taiko: initial state + bounded history) one next()/nth(n) call with n any usize must process exactly the difficulty objects of the prefix step, once each and in order (skills replaced by recording stubs) and return exactly the one-shot integer counters of the prefix (max_combo, object/hold/slider/tick/fruit/droplet counts, computed with the real per-object counting code). N <= 4 objects of symbolic kind, mania with clock-rate and duration tables. Counterexamples are replayed through the public API against the real one-shot calculation with passed_objects(i). Numeric equality of star ratings is outside (transcendentals).",
        "note": TB + "Skills are assumed deterministic functions of the processed object sequence. Known findings (mania hold combo under clock rates, taiko head handling) are re-derived by dedicated kf_* harnesses and listed in known_findings.json.",
        "technique": BMC + "; state-level inductive step",
    },
    "C05": {
        "text": "Panic freedom for the units encoded for the other properties, re-run under this id: all of Kani's overflow / index / unwrap / slice / unreachable / crate-assert checks are discharged for score-state generation of all four modes (every attribute shape <= 1e5..1e6, every u32 input <= 1e6), gradual next/nth/len from every invariant-satisfying state with N <= 3 and every n: usize, mania column helpers for every f32. The whole-pipeline statement (decode arbitrary text, time/memory budget, hangs) is not decidable with this technique and is outside the claim.",
        "note": TB + "Debug-profile semantics only. Only panic-class and memory-safety checks are attributed here; the known taiko len() underflow is reported as a known finding.",
    },
    "C07": {
        "text": "Decision tree of Beatmap::convert / convert_ref / convert_mut with fully symbolic (mode, is_convert, target, legacy mods bits) on object-free maps running the real taiko/catch/mania converters: the three entry points agree on Ok/Err and the error kind, Ok exactly for own mode or un-converted osu! maps, own-mode conversion is the (borrowed) identity, results are equal maps with mode == target and is_convert set exactly when a conversion ran; thorough tier adds the generic Performance::new/try_mode dispatch.",
        "note": TB + "Maps with objects, lazer key mods / Random seeds, OsuPerformance::try_mode field mapping (harness exceeds 26 GB) and calculate_for_mode equality on converted maps are outside.",
    },
    "C11": {
        "text": "Memory safety of the self-referential gradual structs, bounded: CBMC's pointer-validity / bounds / deallocated-object checks are discharged on every dereference through the lifetime-extended references of OsuGradualDifficulty (diff_objects -> osu_objects) and TaikoGradualDifficulty (Iter<'static>, created with the module's own extend_lifetime) for one next/nth(n) call from every cursor state, N <= 3, any n.",
        "note": TB + "Bounded exploration of lifetimes, not of maps: no threads, no moves of the struct between calls (exceeded memory), no sliders with geometry, -Z uninit-checks unavailable. StrainsVec / point_split harnesses are listed in the evidence when present.",
    },
    "C12": {
        "text": "generate_state of all four modes on attribute-backed builders with fully symbolic attribute shapes (<= 1e5 objects), every subset of provided hit results / combo / misses / slider parts (values <= 1e6, i.e. far beyond the object count), both priorities, lazer/stable, passed_objects: misses <= objects, provided values kept when a completion exists, results add up to the object count when the provided ones do not exceed it, combo <= achievable, idempotence, and a fresh builder fed the generated state reproduces it (calculate() = generate_state() + calculator). No-accuracy paths and mania's loop-free accuracy arms at full range; accuracy paths on small shapes with the accuracy taken from a table.",
        "note": TB + "Legacy-bit mods only (no lazer Classic mod); accuracies between table entries and larger shapes on the accuracy path are outside. Two genuine defects found here were repaired (fix: commits, see known_findings.json 'fixed').",
    },
    "C13": {
        "text": "Closest-achievable accuracy: with only accuracy (+ optional misses) given, the generated state is compared against a fully symbolic competitor distribution over the same objects — the solver searches for a better distribution — for every shape within the small bounds stated per harness and every accuracy of the table slice, both priorities, lazer and stable origins.",
        "note": TB + "Tolerance 1e-9 forgives float ties only. Outside: accuracies between table points, larger shapes, mania's four-loop search arm where it does not fit.",
    },
    "C14": {
        "text": "Counting: catch ObjectCountBuilder one-shot counts == sum of the first `take` gradual deltas for every event sequence of length <= 4 (<= 3 fruits/droplets) and every take, monotone in take, n above the total == unlimited; gradual increments of all four modes add exactly each object's contribution (osu incl. hand-built sliders with nested objects: circles + sliders + spinners == objects passed); is_convert flag set exactly by conversions (C07 harness).",
        "note": TB + "The osu! one-shot counting inside convert_objects did not fit and is outside; real slider / juice-stream nested object generation is outside.",
    },
    "C15": {
        "text": "Iterator protocol of the four gradual difficulty calculators by a state-level inductive step: from every cursor state p <= N (N <= 3 quick, 4 thorough; symbolic object kinds) len() == size_hint() == N - p; next()/nth(n) for any n: usize returns Some iff p + n < N, then identifies value p + n + 1, processes objects p..=p+n once each in order and leaves the cursor at p+n+1; otherwise every later call is None without panic. One step from an arbitrary invariant-satisfying state covers call histories of any length.",
        "note": TB + "The std adaptors are trusted (defined through next/nth). Known findings (nth past the end returns Some(last) in all modes; taiko short maps and non-hit head) are re-derived by kf_* harnesses on every run; gradual performance nth/last is covered under C03 when present.",
        "technique": BMC + "; state-level inductive step",
    },
    "C19": {
        "text": "Key-count and column mechanisms of the mania converter: target_columns is the value of an active key mod or in {4,5,6,7} for every cs/od on the 0.1 grid, every legacy mods word and maps of 0/5(/8) objects of symbolic kind; column(column_to_pos(c,K),K) == c for K <= 10 (18); ManiaObject::column(x,K) < K and get_column (incl. the 8K special lane) for every f32 x; ContainedColumns bit set. Object-free conversions: C07 harnesses.",
        "note": TB + "The conversions on maps with objects (slider -> drum-roll splice, pattern generation) have float-driven trip counts and slider geometry and are outside.",
    },
    "C03": {
        "text": "Gradual performance, builder level: the {Osu,Mania,Catch}GradualPerformance literal is built around an S1 difficulty state (N <= 1 quick, 3 thorough), the mode's one-shot calculate() is a recording stub, and one next / nth(n) (any n) / last call must hand over exactly: the attributes of the processed prefix, the gradual Difficulty with passed_objects(idx), the given score state (all fields, any u32), no accuracy/priority leak; it processes min(n+1, remaining) objects and returns None exactly when nothing remains. Native replay compares the real gradual result with the real one-shot Performance on the prefix.",
        "note": TB + "Taiko gradual performance (same chain) is not encoded; calculators are assumed deterministic in their builder; inner bookkeeping is C02/C15.",
    },
    "C04": {
        "text": "Attribute reuse, builder level: with the mode's difficulty entry replaced by a ghost-attribute stub, a map-backed builder of each of the four modes calls it exactly once with its own Difficulty, then holds the ghost attributes, generates the same state as, and equals field by field, the attribute-backed builder with the same setters (every subset of provided values, passed_objects, lazer, legacy mods, priority); every IntoPerformance / IntoModePerformance conversion yields that same builder; osu!'s zero-hit calculate() embeds the given difficulty attributes.",
        "note": TB + "The stub defines the oracle, so these harnesses cannot be replayed natively (stated per harness). Numeric result equality beyond builder equality is outside.",
    },
    "C06": {
        "text": "Post-parse well-formedness mechanisms of the decoder: difficulty-section clamps for every non-NaN value and mode; tandem sort of objects and sounds (sorted by total_cmp, stable, each sound stays with its object) for 2 real HitObjects / 4 light keys with fully symbolic times (3 / 5 thorough); sorted insertion of timing, difficulty and effect points as one inductive step from an arbitrary strictly sorted vector (L = 2, 3 thorough) and an arbitrary new point (strict order, uniqueness, replacement, constructor clamps).",
        "note": TB + "Byte-level totality of the parser, error containment and bytes/str/path agreement are outside (text scanning and float parsing are out of reach); the parser's NaN rejection is an assumed precondition.",
    },
    "C08": {
        "text": "Representation independence at the accessor level (all calculators read mods only through GameMods' accessors): every accessor for every u32 mods word against the osu! API bit table for u32 / GameModsLegacy / from_bits_retain; explicit clock rate overrides; single-mod lazer sets with symbolic payload: DoubleTime(r) == clock_rate(r), DifficultyAdjustOsu attribute values, HardRock default == legacy bit (thorough: HalfTime, Nightcore table).",
        "note": TB + "Multi-mod lazer / intermode sets (B-trees with several elements), borrowed intermode sets and end-to-end result equality are outside.",
    },
    "C09": {
        "text": "The guards: *ScoreState::accuracy() of all four modes lies in [0,1] and is never NaN for every state with bounded fields (2^16; mania 2^8; osu: stable origin — the slider-accuracy origins did not finish and are experimental); an osu! play with zero hits is worth zero pp for every shape and legacy mods word; the attribute builder's outputs are finite over the documented input range (0.1 grid, rate table); difficulty_value / count_top_weighted_strains on empty and all-zero lists.",
        "note": TB + "Finiteness / non-negativity of stars and pp on non-degenerate input depends on powf/ln/exp/erf, which have no exact solver semantics: outside.",
    },
    "C10": {
        "text": "The feature-gated StrainsVec: the same harness source is verified under the default features and under --features raw_strains against one executable model for every 3 pushes (4 thorough) of symbolic strains (>= 0 or -0.0, non-NaN): len and iter (with its ExactSizeIterator length protocol, zero runs re-expanded in place). Both builds equal to the model implies equal to each other. Harnesses for retain/sort/transmute, into_vec and sum exist but did not finish (std's sort and repeat_n under CBMC) and are kept as 'experimental', outside the claim.",
        "note": TB + "Whole-calculation equality across builds, negative/NaN pushes (the builds differ there by design) and the `sync` wrappers are outside.",
    },
    "C16": {
        "text": "Structural part: the peaks a skill exports are its closed sections plus the open section, whatever its value (provided trait method, symbolic peaks incl. exactly 0) — so all skills report the same number of sections; the bit-exact re-aggregation harness for difficulty_value did not finish (std sort under CBMC) and is experimental, outside the claim.",
        "note": TB + "The section loop of process(), osu aim/speed re-aggregation, real strain values and the final sqrt*multiplier step are outside.",
    },
    "C17": {
        "text": "Attribute builder on grids (values k/10, clock rates from an 8-entry table, legacy EZ/HR/DT/HT subsets, all modes and convert flags): a value given with_mods = true is reported back (each attribute with its own flag, so mixed flags are covered); windows do not grow with OD/AR; windows scale inversely with the clock rate exactly for attributes given without mods and not at all for those given with mods; EZ <= NM <= HR; outputs finite on [-20, 20]; thorough: DT/HT as mod == explicit clock rate through Difficulty.",
        "note": TB + "Values between grid points and rates outside the table are outside; build() vs hit_windows() bit-equality is not asserted (same code; the miter did not close).",
    },
    "C18": {
        "text": "Bounded model checking of the real setter code: for each of the four Performance variants and each mode-specific builder, two setters chosen symbolically with fully symbolic arguments (all u32, all f64 bit patterns for clock rate, all non-NaN f32, bool) are shown equivalent to difficulty(Difficulty::new().<same setters>), independent setters commute, documented-irrelevant setters are no-ops, stored values are inside the documented clamps, and Difficulty -> inspect -> into_difficulty is the identity for every combination of set/unset fields. The solver decides all argument values at once; unit tests only sample them.",
        "note": "Trusted: Kani/CBMC/CaDiCaL, dev-profile semantics. Builders are attribute-backed; comparison is field-by-field over every builder field except the map/attributes slot. Bound: sequences of two setters; legacy-bit mods only. Outside: that a stored-but-ignored value leaves float results untouched.",
    },
}
