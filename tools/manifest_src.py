HOOK_COMMITS = ["c2b1eb3"]

NOT_APPLICABLE = {
    "C01": "Determinism over call histories / hash seeds: a bounded model checker re-executing the same symbolic input is equal to itself by construction, so 'run twice and compare' is vacuous; the one seeded component (std HashMap RandomState in bpm()) needs the getrandom FFI, and hashbrown+SipHash with symbolic keys did not finish symbolic execution in 900 s (DESIGN.md §7).",
    "C20": "Concurrency: Kani/CBMC does not model Rust threads or OS schedules; Send/Sync are compile-time facts. The single-threaded value semantics of the `sync` wrappers is covered under C10 (DESIGN.md §7).",
}

CLAIMS = {
    "C18": {
        "text": "Bounded model checking of the real setter code: for each of the four Performance variants and each mode-specific builder, two setters chosen symbolically with fully symbolic arguments (all u32, all f64 bit patterns for clock rate, all non-NaN f32, bool) are shown equivalent to difficulty(Difficulty::new().<same setters>), independent setters commute, documented-irrelevant setters are no-ops, stored values are inside the documented clamps, and Difficulty -> inspect -> into_difficulty is the identity for every combination of set/unset fields. The solver decides all argument values at once; unit tests only sample them.",
        "note": "Trusted: Kani/CBMC/CaDiCaL, dev-profile semantics. Builders are attribute-backed; comparison is field-by-field over every builder field except the map/attributes slot. Bound: sequences of two setters; legacy-bit mods only. Outside: that a stored-but-ignored value leaves float results untouched.",
    },
}
