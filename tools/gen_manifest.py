#!/usr/bin/env python3
"""Regenerates /verif/MANIFEST.json from tools/manifest_src.py (claims) — keeps it schema-valid."""
import json, os, sys
sys.path.insert(0, os.path.dirname(__file__))
from manifest_src import CLAIMS, NOT_APPLICABLE, HOOK_COMMITS

VERIF = os.path.dirname(os.path.dirname(os.path.abspath(__file__)))
ALL = ["C%02d" % i for i in range(1, 21)]
checks = []
for pid in ALL:
    if pid not in CLAIMS:
        continue
    c = CLAIMS[pid]
    checks.append({
        "property_id": pid,
        "quick_cmd": f"./vcheck {pid} --tier quick",
        "thorough_cmd": f"./vcheck {pid} --tier thorough",
        "evidence_file": f"/verif/evidence/{pid}.json",
        "replay_cmd_template": "./vcheck --replay {path}",
        "engine": "kani-cbmc",
        "level_claimed": {"category": "model_checking", "text": c["text"], "design_ref": c.get("design_ref", "DESIGN.md §5 " + pid)},
        "level_note": c["note"],
        "technique": c.get("technique", "bounded model checking of the compiled Rust code (Kani 0.68 -> CBMC 6.11 -> CaDiCaL SAT), symbolic inputs, counterexamples replayed natively"),
    })
na = []
for pid in ALL:
    if pid in CLAIMS:
        continue
    na.append({"property_id": pid, "reason": NOT_APPLICABLE.get(pid, "check not built yet; planned per DESIGN.md §5")})
m = {
    "version": 1,
    "setup_cmd": "./setup.sh",
    "hooks": {
        "guard": "cfg(kani)",
        "enable": "cargo kani sets --cfg kani; the hook lines `#[cfg(kani)] #[path = \"/verif/harness/<site>.rs\"] pub(crate) mod verif_harness;` then compile the harness modules into the crate. Plain cargo build/test never sets it.",
        "baseline_off_cmd": "cd /repo && cargo test --workspace --no-fail-fast --offline",
        "source_commits": HOOK_COMMITS,
        "add_only": True,
    },
    "engines": [{
        "name": "kani-cbmc", "path": "/verif/vcheck",
        "serves_properties": sorted(CLAIMS.keys()),
        "kind_free_text": "python driver around `cargo kani` (Kani 0.68 / CBMC 6.11 / CaDiCaL): symbolic execution of rosu-pp's real functions compiled from /repo's working tree, harnesses in /verif/harness spliced in via cfg(kani) hooks, RSS watchdog, vacuity (cover) checks, concrete-playback native replay of counterexamples",
    }],
    "checks": checks,
    "not_applicable": na,
    "notes": "Exit 2 from a check means inconclusive (timeout / memory / unwinding bound / vacuous / non-reproducing counterexample) and is never a pass. Known findings live in /verif/known_findings.json.",
}
with open(os.path.join(VERIF, "MANIFEST.json"), "w") as f:
    json.dump(m, f, indent=1)
print("MANIFEST.json written:", len(checks), "checks,", len(na), "not applicable")
