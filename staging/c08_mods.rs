// C08 — results do not depend on how equivalent settings are expressed (accessor level).
//
// All calculators read mods only through GameMods' pub(crate) accessors, so representation
// independence reduces to accessor agreement. Legacy forms: every accessor for every u32 against
// the osu! API bit table (an oracle independent of rosu_mods' flag names). Lazer: one mod at a
// time with a symbolic payload (multi-mod B-tree sets are out of reach).

use rosu_mods::{
    generated_mods::{
        DaycoreOsu, DifficultyAdjustCatch, DifficultyAdjustMania, DifficultyAdjustOsu, DifficultyAdjustTaiko,
        DoubleTimeCatch, DoubleTimeOsu, HalfTimeTaiko, HardRockOsu, NightcoreOsu,
    },
    GameMod, GameMods as GameModsLazer, GameModsLegacy,
};

use crate::{model::mods::Reflection, Difficulty, GameMods};

// osu! API mod bits (https://github.com/ppy/osu-api/wiki#mods)
const NF: u32 = 1;
const EZ: u32 = 2;
const TD: u32 = 4;
const HD: u32 = 8;
const HR: u32 = 16;
const DT: u32 = 64;
const RX: u32 = 128;
const HT: u32 = 256;
const FL: u32 = 1024;
const SO: u32 = 4096;
const AP: u32 = 8192;
const K4: u32 = 1 << 15;
const K5: u32 = 1 << 16;
const K6: u32 = 1 << 17;
const K7: u32 = 1 << 18;
const K8: u32 = 1 << 19;
const K9: u32 = 1 << 24;
const K1: u32 = 1 << 26;
const K3: u32 = 1 << 27;
const K2: u32 = 1 << 28;

fn check_legacy_accessors(m: &GameMods, bits: u32) {
    let has = |b: u32| bits & b != 0;
    assert!(m.nf() == has(NF) && m.ez() == has(EZ) && m.td() == has(TD) && m.hd() == has(HD), "C08 legacy NF/EZ/TD/HD accessors follow the API bits");
    assert!(m.hr() == has(HR) && m.rx() == has(RX) && m.fl() == has(FL) && m.so() == has(SO) && m.ap() == has(AP), "C08 legacy HR/RX/FL/SO/AP accessors follow the API bits");
    assert!(!m.bl() && !m.cl() && !m.invert() && !m.ho() && !m.tc(), "C08 lazer-only mods are never set by legacy bits");
    let rate = if has(DT) { 1.5 } else if has(HT) { 0.75 } else { 1.0 };
    assert!(m.clock_rate() == rate, "C08 legacy clock rate: DT/NC 1.5, HT 0.75");
    let mult = if has(HR) { 1.4 } else if has(EZ) { 0.5 } else { 1.0 };
    assert!(m.od_ar_hp_multiplier() == mult, "C08 legacy od/ar/hp multiplier");
    assert!(m.hardrock_offsets() == has(HR), "C08 legacy hardrock offsets follow HR");
    assert!(m.no_slider_head_acc(true) == false && m.no_slider_head_acc(false) == true, "C08 legacy slider head accuracy follows the lazer flag");
    assert!(m.reflection() == if has(HR) { Reflection::Vertical } else { Reflection::None }, "C08 legacy reflection follows HR");
    let keys = [(K1, 1.0), (K2, 2.0), (K3, 3.0), (K4, 4.0), (K5, 5.0), (K6, 6.0), (K7, 7.0), (K8, 8.0), (K9, 9.0)];
    match m.mania_keys() {
        Some(k) => {
            let mut ok = false;
            for (b, v) in keys {
                ok |= has(b) && v == k;
            }
            assert!(ok, "C08 legacy key count is the value of a set key bit");
        }
        None => {
            for (b, _) in keys {
                assert!(!has(b), "C08 a set key bit yields a key count");
            }
        }
    }
    assert!(m.ar().is_none() && m.cs().is_none() && m.hp().is_none() && m.od().is_none(), "C08 legacy mods carry no attribute overrides");
    assert!(m.scroll_speed().is_none() && m.random_seed().is_none(), "C08 legacy mods carry no scroll speed / seed");
}

#[kani::proof]
#[kani::unwind(11)]
pub fn c08_legacy_forms_agree() {
    let bits: u32 = kani::any();
    let from_u32 = GameMods::from(bits);
    let from_legacy = GameMods::from(GameModsLegacy::from_bits(bits));
    let from_retain = GameMods::from(GameModsLegacy::from_bits_retain(bits));
    check_legacy_accessors(&from_u32, bits);
    check_legacy_accessors(&from_legacy, bits);
    check_legacy_accessors(&from_retain, bits);
    assert!(from_u32 == from_legacy, "C08 u32 and GameModsLegacy give the same mods");
    // Difficulty: mods given either way, same clock rate; explicit clock rate wins
    let d1 = Difficulty::new().mods(bits);
    let d2 = Difficulty::new().mods(GameModsLegacy::from_bits(bits));
    assert!(d1 == d2 && d1.get_clock_rate() == d2.get_clock_rate(), "C08 Difficulty does not care how legacy mods are given");
    let r: f64 = kani::any();
    kani::assume(r >= 0.01 && r <= 100.0);
    assert!(Difficulty::new().mods(bits).clock_rate(r).get_clock_rate() == r, "C08 an explicit clock rate overrides the mods' rate");
    assert!(d1.get_hardrock_offsets() == (bits & HR != 0) && d1.get_lazer(), "C08 Difficulty defaults follow the mods");
    kani::cover!(bits & (DT | HT) == (DT | HT), "DT and HT together");
    kani::cover!(bits & (K1 | K9) == (K1 | K9), "two key mods");
    kani::cover!(bits == 0, "no mod");
}

// ---- lazer, one mod at a time -------------------------------------------------------------------------

fn lazer_with(m: GameMod) -> GameMods {
    let mut mods = GameModsLazer::new();
    mods.insert(m);
    GameMods::from(mods)
}

fn any_rate() -> f64 {
    let r: f64 = kani::any();
    kani::assume(r >= 0.01 && r <= 100.0);
    r
}

/// A lazer rate mod with speed change r == explicit clock_rate(r) (accessor level).
#[kani::proof]
#[kani::unwind(4)]
pub fn c08_lazer_doubletime_rate() {
    let r = any_rate();
    let mods = lazer_with(GameMod::DoubleTimeOsu(DoubleTimeOsu { speed_change: Some(r), adjust_pitch: None }));
    assert!(mods.clock_rate() == r, "C08 lazer DoubleTime speed change is the clock rate");
    let d = Difficulty::new().mods(mods);
    assert!(d.get_clock_rate() == Difficulty::new().clock_rate(r).get_clock_rate(), "C08 lazer DoubleTime(r) equals clock_rate(r)");
    assert!(!d.get_mods().hr() && !d.get_mods().ez() && !d.get_mods().hd(), "C08 a rate mod sets no other mod");
    kani::cover!(r > 1.9, "fast");
    core::mem::forget(d);
}

#[kani::proof]
#[kani::unwind(4)]
pub fn c08_lazer_halftime_taiko_rate() {
    let r = any_rate();
    let mods = lazer_with(GameMod::HalfTimeTaiko(HalfTimeTaiko { speed_change: Some(r), adjust_pitch: None }));
    assert!(mods.clock_rate() == r, "C08 lazer HalfTime speed change is the clock rate");
    let dflt = lazer_with(GameMod::HalfTimeTaiko(HalfTimeTaiko::default()));
    assert!(dflt.clock_rate() == GameMods::from(HT).clock_rate(), "C08 lazer HalfTime with default settings equals the legacy bit");
    kani::cover!(r < 0.6, "slow");
    core::mem::forget((mods, dflt));
}

/// Nightcore / Daycore carry a speed change as well; on a table of rates (one float division and
/// one multiplication are involved)
const NC_RATES: [f64; 8] = [1.01, 1.1, 1.25, 1.3, 1.4, 1.5, 1.75, 2.0];

#[kani::proof]
#[kani::unwind(4)]
pub fn c08_lazer_nightcore_rate() {
    let i: u8 = kani::any();
    kani::assume(i < 8);
    let r = NC_RATES[i as usize];
    let mods = lazer_with(GameMod::NightcoreOsu(NightcoreOsu { speed_change: Some(r) }));
    assert!(mods.clock_rate() == r, "C08 lazer Nightcore speed change is the clock rate");
    let dflt = lazer_with(GameMod::NightcoreOsu(NightcoreOsu::default()));
    assert!(dflt.clock_rate() == 1.5, "C08 lazer Nightcore with default settings is 1.5x");
    kani::cover!(i == 4, "1.4x");
    core::mem::forget((mods, dflt));
}

/// A lazer DifficultyAdjust value == Difficulty::ar/cs/hp/od(value, false) at the accessor level:
/// the mod reports exactly the value, and only for the attributes it sets.
#[kani::proof]
#[kani::unwind(4)]
pub fn c08_lazer_difficulty_adjust_osu() {
    let v: f64 = kani::any();
    kani::assume(v >= 0.0 && v <= 11.0);
    let which: u8 = kani::any();
    kani::assume(which < 4);
    let mut da = DifficultyAdjustOsu::default();
    match which {
        0 => da.approach_rate = Some(v),
        1 => da.circle_size = Some(v),
        2 => da.drain_rate = Some(v),
        _ => da.overall_difficulty = Some(v),
    }
    let mods = lazer_with(GameMod::DifficultyAdjustOsu(da));
    assert!(mods.ar() == if which == 0 { Some(v) } else { None }, "C08 DifficultyAdjust reports AR only when set");
    assert!(mods.cs() == if which == 1 { Some(v) } else { None }, "C08 DifficultyAdjust reports CS only when set");
    assert!(mods.hp() == if which == 2 { Some(v) } else { None }, "C08 DifficultyAdjust reports HP only when set");
    assert!(mods.od() == if which == 3 { Some(v) } else { None }, "C08 DifficultyAdjust reports OD only when set");
    assert!(mods.clock_rate() == 1.0 && !mods.hr() && !mods.ez(), "C08 DifficultyAdjust changes nothing else");
    kani::cover!(which == 3 && v > 10.0, "OD above 10");
    core::mem::forget(mods);
}

#[kani::proof]
#[kani::unwind(4)]
pub fn c08_lazer_hardrock_default() {
    let mods = lazer_with(GameMod::HardRockOsu(HardRockOsu::default()));
    let legacy = GameMods::from(HR);
    assert!(mods.hr() == legacy.hr() && mods.ez() == legacy.ez() && mods.hd() == legacy.hd(), "C08 lazer HardRock equals the legacy bit (flags)");
    assert!(mods.od_ar_hp_multiplier() == legacy.od_ar_hp_multiplier(), "C08 lazer HardRock equals the legacy bit (multiplier)");
    assert!(mods.reflection() == legacy.reflection() && mods.hardrock_offsets() == legacy.hardrock_offsets(), "C08 lazer HardRock equals the legacy bit (reflection, offsets)");
    assert!(mods.clock_rate() == legacy.clock_rate() && mods.no_slider_head_acc(true) == legacy.no_slider_head_acc(true), "C08 lazer HardRock equals the legacy bit (rate, slider acc)");
    kani::cover!(true, "end reached");
    core::mem::forget(mods);
}

verif_replay_table!(verif_replay_c08;
    c08_legacy_forms_agree, c08_lazer_doubletime_rate, c08_lazer_halftime_taiko_rate, c08_lazer_nightcore_rate,
    c08_lazer_difficulty_adjust_osu, c08_lazer_hardrock_default,
);
