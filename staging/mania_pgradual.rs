// harness site: src/mania/performance/gradual.rs — C03 (builder hand-over), C15 (gradual performance
// nth/last protocol); literal around an S1 difficulty state (harness/mania_gradual.rs), with
// `ManiaPerformance::calculate` replaced by a recording stub.
#![allow(dead_code, unused_imports, clippy::all, clippy::pedantic)]

use super::*;
use crate::any::HitResultPriority;
use crate::mania::difficulty::gradual::verif_harness as s1;
use crate::mania::{ManiaDifficultyAttributes, ManiaPerformance};
use crate::model::mode::ConvertError;
use crate::verif_harness::common::{ghost_probe, verif_replay_table, VerifPerf};

struct Recorded {
    difficulty: Difficulty,
    fields: [Option<u32>; 6],
    acc_set: bool,
    best_case: bool,
    attrs: Option<ManiaDifficultyAttributes>,
}

static mut REC: Option<Recorded> = None;
static mut REC_CALLS: usize = 0;

pub(crate) fn rec_calculate<'map>(p: ManiaPerformance<'map>) -> Result<ManiaPerformanceAttributes, ConvertError>
where
    'map: 'map,
{
    unsafe {
        REC_CALLS += 1;
        REC = Some(Recorded {
            difficulty: p.difficulty.clone(),
            fields: [p.n320, p.n300, p.n200, p.n100, p.n50, p.misses],
            acc_set: p.acc.is_some(),
            best_case: p.hitresult_priority == HitResultPriority::BestCase,
            attrs: p.v_attrs().cloned(),
        });
    }
    core::mem::forget(p);
    Ok(ManiaPerformanceAttributes::default())
}

pub(crate) fn pgradual_step<const N: usize, const M: usize>() {
    let w = s1::any_witness::<N>();
    let map = s1::map_of(&w);
    let (m, objs) = s1::model_and_objects::<N>(&map);
    let state = ManiaScoreState { n320: kani::any(), n300: kani::any(), n200: kani::any(), n100: kani::any(), n50: kani::any(), misses: kani::any() };
    let mut d = s1::difficulty_of(&w).mods(kani::any::<u32>());
    if kani::any() {
        d = d.lazer(kani::any());
    }
    let p = w.p;
    let remaining = N - p;
    let n = if w.call == 0 { 0 } else if w.call == 2 { usize::MAX } else { w.n };

    if ghost_probe() {
        let inner = s1::literal_state::<N, M>(&w, &m, &objs, d.clone());
        let mut gp = ManiaGradualPerformance { difficulty: inner };
        assert!(gp.len() == remaining, "C15 mania gradual performance: len() is the number of objects left");
        let res = match w.call {
            0 => gp.next(state.clone()),
            2 => gp.last(state.clone()),
            _ => gp.nth(state.clone(), n),
        };
        assert!(res.is_some() == (remaining > 0), "C15 mania gradual performance: None exactly when nothing remains");
        if remaining > 0 {
            let k = core::cmp::min(p.saturating_add(n).saturating_add(1), N);
            assert!(gp.difficulty.idx == k, "C15 mania gradual performance: processes min(n + 1, remaining) objects");
            let rec = unsafe { REC.as_ref() };
            assert!(unsafe { REC_CALLS } == 1 && rec.is_some(), "C03 mania: exactly one one-shot calculation per step");
            let rec = rec.unwrap();
            assert!(rec.difficulty == d.clone().passed_objects(k as u32), "C03 mania: the one-shot builder gets the gradual settings with passed_objects(idx)");
            let s = &state;
            assert!(rec.fields == [Some(s.n320), Some(s.n300), Some(s.n200), Some(s.n100), Some(s.n50), Some(s.misses)],
                "C03 mania: the one-shot builder gets exactly the given score state");
            assert!(!rec.acc_set && rec.best_case, "C03 mania: no accuracy or priority leaks into the one-shot builder");
            let a = rec.attrs.as_ref();
            assert!(a.is_some(), "C03 mania: the one-shot builder is attribute-backed");
            let a = a.unwrap();
            assert!(a.n_objects as usize == k && a.n_hold_notes == m.holds[k], "C03 mania: the one-shot builder holds the attributes of exactly the processed prefix");
        } else {
            assert!(unsafe { REC_CALLS } == 0, "C03 mania: nothing is calculated when nothing remains");
        }
        kani::cover!(N < 2 || (w.call == 2 && remaining > 1), "last() with several objects left");
        kani::cover!(N < 2 || (w.call == 1 && n > 0 && n < remaining), "nth inside the map");
        kani::cover!(remaining == 0, "nothing remains");
        core::mem::forget(gp);
    } else {
        let mut gp = ManiaGradualPerformance::new(d.clone(), &map).unwrap();
        for _ in 0..p {
            let _ = gp.next(state.clone());
        }
        let res = match w.call {
            0 => gp.next(state.clone()),
            2 => gp.last(state.clone()),
            _ => gp.nth(state.clone(), n),
        };
        assert!(res.is_some() == (remaining > 0), "C15 mania gradual performance: None exactly when nothing remains");
        if let Some(res) = res {
            let k = core::cmp::min(p.saturating_add(n).saturating_add(1), N);
            let one = ManiaPerformance::new(&map).difficulty(d.clone()).passed_objects(k as u32).state(state.clone()).calculate().unwrap();
            // (max_combo under clock rates is the known finding KF-C02-mania-combo-clock-rate)
            assert!(one.pp == res.pp && one.difficulty.n_objects == res.difficulty.n_objects, "C03 mania: gradual performance equals one-shot performance on the prefix");
        }
    }
    core::mem::forget((map, objs));
}

