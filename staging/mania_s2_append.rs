
// ---- S2: the constructor side ------------------------------------------------------------------
// The S1 literal assumes the state `new()` establishes; here the real
// `ManiaGradualDifficulty::new()` runs on concrete tiny kind patterns (symbolic times / hold
// durations) and every value is compared with the one-shot counters of the prefix, which ties the
// S1 pre-states to what the constructor really builds (first object counted in `new()`!).

fn cut_contains_intermode<M>(_m: &rosu_mods::GameMods, _g: M) -> bool
where
    rosu_mods::GameModIntermode: From<M>,
{
    kani::assume(false);
    false
}

/// PATTERN bit i set => object i is a circle
fn s2_new<const N: usize, const PATTERN: u8>() {
    let mut w = any_witness::<N>();
    for i in 0..N {
        kani::assume(w.is_circle[i] == (PATTERN & (1 << i) != 0));
    }
    kani::assume(w.rate_k == 4 || w.rate_k == 0);
    w.p = 0;
    let map = map_of(&w);
    let (m, objs) = model_and_objects::<N>(&map);
    let mut g = ManiaGradualDifficulty::new(difficulty_of(&w), &map).unwrap();
    assert!(g.len() == N, "C15,C02 mania: new() announces one value per object");
    for k in 1..=N {
        let a = g.next();
        assert!(a.is_some(), "C15,C02 mania: a value is produced while enough values remain");
        let a = a.unwrap();
        assert!(a.n_objects as usize == k, "C02 mania: n_objects is the prefix length");
        assert!(a.max_combo == m.combo[k], "C02 mania: max_combo equals the one-shot count of the prefix");
        assert!(a.n_hold_notes == m.holds[k], "C02 mania: n_hold_notes equals the one-shot count of the prefix");
        if !ghost_probe() {
            let one = difficulty_of(&w).passed_objects(k as u32).calculate_for_mode::<Mania>(&map).unwrap();
            assert!(one.max_combo == a.max_combo && one.n_hold_notes == a.n_hold_notes && one.n_objects == a.n_objects,
                "C02 mania: counters equal one-shot passed_objects(i)");
        }
    }
    assert!(g.next().is_none(), "C15 mania: exhausted calculator stays exhausted");
    kani::cover!(N > 0 && w.dur_k[0] == 1, "first object with a 200 ms duration entry");
    kani::cover!(true, "end reached");
    core::mem::forget((g, map, objs));
}

macro_rules! s2_proof {
    ($name:ident, $n:literal, $pat:literal, $unwind:literal) => {
        #[kani::proof]
        #[kani::unwind($unwind)]
        #[kani::stub(<Strain as StrainSkill>::process, rec_process)]
        #[kani::stub(<Strain as StrainSkill>::cloned_difficulty_value, zero_value)]
        #[kani::stub(crate::model::hit_object::Slider::curve, cut_curve)]
        #[kani::stub(crate::verif_harness::common::ghost_probe, crate::verif_harness::common::ghost_probe_on)]
        pub fn $name() {
            s2_new::<$n, $pat>();
        }
    };
}

s2_proof!(s2_mania_new_hold, 1, 0b0, 6);
s2_proof!(s2_mania_new_hold_circle, 2, 0b10, 6);
s2_proof!(s2_mania_new_circle_hold, 2, 0b01, 6);
