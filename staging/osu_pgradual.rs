// harness site: src/osu/performance/gradual.rs — C03 (builder hand-over), C15 (gradual performance
// nth/last protocol). The OsuGradualPerformance literal is built around an S1 difficulty state
// (harness/osu_gradual.rs); `OsuPerformance::calculate` is replaced by a recording stub, so what is
// decided is exactly which builder nth(state, n) hands to the one-shot calculator:
//   attrs_i.performance().lazer(l).state(s).difficulty(d).passed_objects(idx).calculate()
#![allow(dead_code, unused_imports, clippy::all, clippy::pedantic)]

use super::*;
use crate::any::HitResultPriority;
use crate::model::mode::ConvertError;
use crate::osu::difficulty::gradual::verif_harness as s1;
use crate::osu::{OsuDifficultyAttributes, OsuPerformance};
use crate::verif_harness::common::{ghost_probe, verif_replay_table, VerifPerf};

struct Recorded {
    difficulty: Difficulty,
    fields: [Option<u32>; 8],
    acc_set: bool,
    best_case: bool,
    attrs: Option<OsuDifficultyAttributes>,
}

static mut REC: Option<Recorded> = None;
static mut REC_CALLS: usize = 0;

pub(crate) fn rec_calculate<'map>(p: OsuPerformance<'map>) -> Result<OsuPerformanceAttributes, ConvertError>
where
    'map: 'map,
{
    unsafe {
        REC_CALLS += 1;
        REC = Some(Recorded {
            difficulty: p.difficulty.clone(),
            fields: [p.combo, p.large_tick_hits, p.small_tick_hits, p.slider_end_hits, p.n300, p.n100, p.n50, p.misses],
            acc_set: p.acc.is_some(),
            best_case: p.hitresult_priority == HitResultPriority::BestCase,
            attrs: p.v_attrs().cloned(),
        });
    }
    core::mem::forget(p);
    Ok(OsuPerformanceAttributes::default())
}

fn any_state() -> OsuScoreState {
    OsuScoreState {
        max_combo: kani::any(),
        large_tick_hits: kani::any(),
        small_tick_hits: kani::any(),
        slider_end_hits: kani::any(),
        n300: kani::any(),
        n100: kani::any(),
        n50: kani::any(),
        misses: kani::any(),
    }
}

pub(crate) fn pgradual_step<const N: usize, const M: usize>() {
    let w = s1::any_witness::<N>();
    let m = s1::model_of(&w);
    let state = any_state();
    // symbolic settings of the gradual calculator
    let mut d = Difficulty::new().mods(kani::any::<u32>());
    if kani::any() {
        d = d.lazer(kani::any());
    }
    if kani::any() {
        let r: f64 = kani::any();
        kani::assume(r >= 0.01 && r <= 100.0);
        d = d.clock_rate(r);
    }
    let p = w.p;
    let remaining = N - p;
    let n = if w.call == 0 { 0 } else if w.call == 2 { usize::MAX } else { w.n };

    if ghost_probe() || !s1::representable_as_map(&w) {
        let mut inner = s1::literal_state::<N, M>(&w, &m);
        inner.difficulty = d.clone();
        let mut gp = OsuGradualPerformance { lazer: d.get_lazer(), difficulty: inner };
        assert!(gp.len() == remaining, "C15 osu gradual performance: len() is the number of objects left");
        let res = match w.call {
            0 => gp.next(state.clone()),
            2 => gp.last(state.clone()),
            _ => gp.nth(state.clone(), n),
        };
        // nth(state, n) processes min(n + 1, remaining) objects; None exactly when nothing remains
        assert!(res.is_some() == (remaining > 0), "C15 osu gradual performance: None exactly when nothing remains");
        if remaining > 0 {
            let k = core::cmp::min(p.saturating_add(n).saturating_add(1), N);
            assert!(gp.difficulty.idx == k, "C15 osu gradual performance: processes min(n + 1, remaining) objects");
            if ghost_probe() {
                let rec = unsafe { REC.as_ref() };
                assert!(unsafe { REC_CALLS } == 1 && rec.is_some(), "C03 osu: exactly one one-shot calculation per step");
                let rec = rec.unwrap();
                let want_d = d.clone().passed_objects(k as u32);
                assert!(rec.difficulty == want_d, "C03 osu: the one-shot builder gets the gradual settings with passed_objects(idx)");
                assert!(rec.difficulty.get_lazer() == d.get_lazer(), "C03 osu: the lazer flag is carried over");
                let s = &state;
                assert!(rec.fields == [Some(s.max_combo), Some(s.large_tick_hits), Some(s.small_tick_hits), Some(s.slider_end_hits),
                    Some(s.n300), Some(s.n100), Some(s.n50), Some(s.misses)], "C03 osu: the one-shot builder gets exactly the given score state");
                assert!(!rec.acc_set && rec.best_case, "C03 osu: no accuracy or priority leaks into the one-shot builder");
                let a = rec.attrs.as_ref();
                assert!(a.is_some(), "C03 osu: the one-shot builder is attribute-backed");
                let a = a.unwrap();
                assert!(a.n_circles == m.circles[k] && a.n_sliders == m.sliders[k] && a.n_spinners == m.spinners[k]
                    && a.n_large_ticks == m.ticks[k] && a.max_combo == m.combo[k],
                    "C03 osu: the one-shot builder holds the attributes of exactly the processed prefix");
            }
        } else if ghost_probe() {
            assert!(unsafe { REC_CALLS } == 0, "C03 osu: nothing is calculated when nothing remains");
        }
        kani::cover!(N < 2 || (w.call == 2 && remaining > 1), "last() with several objects left");
        kani::cover!(N < 2 || (w.call == 1 && n > 0 && n < remaining), "nth inside the map");
        kani::cover!(remaining == 0, "nothing remains");
        core::mem::forget(gp);
    } else {
        // native replay through the public API: the real calculators must agree
        let map = s1::map_of(&w);
        let mut gp = OsuGradualPerformance::new(d.clone(), &map).unwrap();
        for _ in 0..p {
            let _ = gp.next(state.clone());
        }
        let res = match w.call {
            0 => gp.next(state.clone()),
            2 => gp.last(state.clone()),
            _ => gp.nth(state.clone(), n),
        };
        assert!(res.is_some() == (remaining > 0), "C15 osu gradual performance: None exactly when nothing remains");
        if let Some(res) = res {
            let k = core::cmp::min(p.saturating_add(n).saturating_add(1), N);
            let one = OsuPerformance::new(&map).difficulty(d.clone()).passed_objects(k as u32).state(state.clone()).calculate().unwrap();
            assert!(one == res, "C03 osu: gradual performance equals one-shot performance on the prefix");
        }
    }
}

