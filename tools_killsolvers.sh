#!/bin/sh
# kills every running cbmc / cargo-kani (matching by exact process name, never by command line)
killall -9 cbmc 2>/dev/null
killall -9 cargo-kani 2>/dev/null
killall -9 kani-driver 2>/dev/null
exit 0
