// C17 — attribute builder is self-consistent (grids, DESIGN.md §3 consequence 2).
// C09(3) — the builder produces no NaN / inf on its documented input ranges.
//
// Encoded (real code): BeatmapAttributesBuilder::{new, mode, ar, od, cs, hp, mods, clock_rate,
// difficulty, hit_windows, build}, difficulty_range, GameMods accessors (legacy bits).
// Float inputs are grid values k/10 with a symbolic integer k; clock rates come from a table.

use rosu_map::section::general::GameMode;

use crate::{
    model::beatmap::{BeatmapAttributes, BeatmapAttributesBuilder, HitWindows},
    verif_harness::common::any_mode,
    Difficulty,
};

const EZ: u32 = 2;
const HR: u32 = 16;
const DT: u32 = 64;
const HT: u32 = 256;

pub(crate) const RATES: [f64; 8] = [0.01, 0.5, 0.75, 1.0, 1.2, 1.5, 2.0, 100.0];

/// k/10 for k in [lo, hi]
fn grid(lo: i16, hi: i16) -> f32 {
    let k: i16 = kani::any();
    kani::assume(k >= lo && k <= hi);
    f32::from(k) / 10.0
}

fn any_mod_bits() -> u32 {
    let b: u32 = kani::any();
    b & (EZ | HR | DT | HT)
}

/// None or one of RATES
fn any_rate() -> Option<f64> {
    let i: u8 = kani::any();
    kani::assume(i <= 8);
    if i == 8 {
        None
    } else {
        Some(RATES[i as usize])
    }
}

fn builder(mode: GameMode, is_convert: bool, bits: u32, rate: Option<f64>) -> BeatmapAttributesBuilder {
    let mut b = BeatmapAttributesBuilder::new().mode(mode, is_convert).mods(bits);
    if let Some(r) = rate {
        b = b.clock_rate(r);
    }
    b
}

// ---- (b) with_mods = true values are reported back --------------------------------------------------

#[kani::proof]
#[kani::unwind(3)]
pub fn c17_roundtrip_with_mods() {
    let mode = any_mode();
    let is_convert: bool = kani::any();
    let (ar, od, cs, hp) = (grid(0, 100), grid(0, 100), grid(0, 100), grid(0, 100));
    // each attribute carries its own with_mods flag: a value given with_mods = true is reported
    // back whatever the flags of the other attributes are
    let (f_ar, f_od, f_cs, f_hp): (bool, bool, bool, bool) = (kani::any(), kani::any(), kani::any(), kani::any());
    let a = builder(mode, is_convert, any_mod_bits(), any_rate())
        .ar(ar, f_ar)
        .od(od, f_od)
        .cs(cs, f_cs)
        .hp(hp, f_hp)
        .build();
    if f_ar {
        assert!((a.ar - f64::from(ar)).abs() <= 1e-6, "C17 AR given with_mods is reported back");
    }
    if f_od {
        match mode {
            GameMode::Osu | GameMode::Taiko => {
                assert!((a.od - f64::from(od)).abs() <= 1e-6, "C17 OD given with_mods is reported back");
            }
            GameMode::Catch | GameMode::Mania => {
                assert!(a.od == f64::from(od), "C17 OD given with_mods is reported back exactly (catch/mania)");
            }
        }
    }
    if f_cs {
        assert!(a.cs == f64::from(cs), "C17 CS given with_mods is reported back");
    }
    if f_hp {
        assert!(a.hp == f64::from(hp), "C17 HP given with_mods is reported back");
    }
    kani::cover!(f_od && !f_ar && mode == GameMode::Taiko, "OD with mods, AR without (taiko)");
    kani::cover!(mode == GameMode::Taiko && od > 9.0, "taiko high OD");
    kani::cover!(ar < 5.0, "AR below 5 (second branch of the inverse)");
}

// ---- (c) windows shrink as OD / AR grow -----------------------------------------------------------
// Mode and clock rate are const generics (one query each): a division by a *symbolic* rate is a
// full divider circuit per window and did not finish; a constant divisor does.

fn mode_of(m: u8) -> GameMode {
    match m {
        0 => GameMode::Osu,
        1 => GameMode::Taiko,
        2 => GameMode::Catch,
        _ => GameMode::Mania,
    }
}

fn rate_of(k: u8) -> Option<f64> {
    if k >= 8 {
        None
    } else {
        Some(RATES[k as usize])
    }
}

fn windows_monotone<const MODE: u8, const RATE_K: u8>() {
    let mode = mode_of(MODE);
    let is_convert: bool = kani::any();
    let bits = any_mod_bits();
    let rate = rate_of(RATE_K);
    let with_mods: bool = kani::any();
    let (lo, hi) = (grid(0, 100), grid(0, 100));
    kani::assume(lo <= hi);
    let w_lo = builder(mode, is_convert, bits, rate).ar(lo, with_mods).od(lo, with_mods).hit_windows();
    let w_hi = builder(mode, is_convert, bits, rate).ar(hi, with_mods).od(hi, with_mods).hit_windows();
    assert!(w_hi.ar <= w_lo.ar, "C17 preempt time does not grow with AR");
    assert!(w_hi.od_great <= w_lo.od_great, "C17 great window does not grow with OD");
    if let (Some(a), Some(b)) = (w_hi.od_ok, w_lo.od_ok) {
        assert!(a <= b, "C17 ok window does not grow with OD");
    }
    if let (Some(a), Some(b)) = (w_hi.od_meh, w_lo.od_meh) {
        assert!(a <= b, "C17 meh window does not grow with OD");
    }
    assert!(w_lo.od_ok.is_some() == (mode != GameMode::Mania) && w_lo.od_meh.is_some() == matches!(mode, GameMode::Osu | GameMode::Catch),
        "C17 which windows a mode reports");
    kani::cover!(lo < 5.0 && hi > 5.0, "across the kink at 5");
    kani::cover!(bits & HR != 0 && hi > 8.0, "HR cap region");
}

// ---- (c') windows scale inversely with the clock rate ---------------------------------------------

fn windows_clock_scaling<const MODE: u8, const RATE_K: u8>() {
    let mode = mode_of(MODE); // (mania's floor/ceil formula is not a plain division: not instantiated)
    let bits = any_mod_bits() & (EZ | HR);
    let v = grid(0, 100);
    let r = RATES[RATE_K as usize];
    // a value given with_mods = true already includes the rate: its window must not scale
    let (f_ar, f_od): (bool, bool) = (kani::any(), kani::any());
    let w1 = builder(mode, false, bits, Some(1.0)).ar(v, f_ar).od(v, f_od).hit_windows();
    let wr = builder(mode, false, bits, Some(r)).ar(v, f_ar).od(v, f_od).hit_windows();
    let close = |a: f64, b: f64| (a - b).abs() <= 1e-9 * a.abs().max(b.abs()).max(1.0);
    let r_ar = if f_ar { 1.0 } else { r };
    let r_od = if f_od { 1.0 } else { r };
    assert!(close(wr.ar * r_ar, w1.ar), "C17 preempt scales inversely with the clock rate");
    assert!(close(wr.od_great * r_od, w1.od_great), "C17 great window scales inversely with the clock rate");
    if let (Some(a), Some(b)) = (wr.od_ok, w1.od_ok) {
        assert!(close(a * r_od, b), "C17 ok window scales inversely with the clock rate");
    }
    if let (Some(a), Some(b)) = (wr.od_meh, w1.od_meh) {
        assert!(close(a * r_od, b), "C17 meh window scales inversely with the clock rate");
    }
    kani::cover!(f_od && !f_ar, "OD with mods, AR without");
    kani::cover!(!f_od && f_ar, "AR with mods, OD without");
}

// ---- (d) HR never easier, EZ never harder ----------------------------------------------------------

fn hr_ez_ordering<const MODE: u8, const RATE_K: u8>() {
    let mode = mode_of(MODE);
    let is_convert: bool = kani::any();
    let rate = rate_of(RATE_K);
    let (ar, od, cs, hp) = (grid(0, 100), grid(0, 100), grid(0, 100), grid(0, 100));
    let mk = |bits: u32| builder(mode, is_convert, bits, rate).ar(ar, false).od(od, false).cs(cs, false).hp(hp, false).build();
    let (ez, nm, hr) = (mk(EZ), mk(0), mk(HR));
    let le = |a: f64, b: f64| a <= b + 1e-9;
    assert!(le(ez.ar, nm.ar) && le(nm.ar, hr.ar), "C17 AR: EZ <= NM <= HR");
    assert!(le(ez.cs, nm.cs) && le(nm.cs, hr.cs), "C17 CS: EZ <= NM <= HR");
    assert!(le(ez.hp, nm.hp) && le(nm.hp, hr.hp), "C17 HP: EZ <= NM <= HR");
    if matches!(mode, GameMode::Osu | GameMode::Taiko) {
        assert!(le(ez.od, nm.od) && le(nm.od, hr.od), "C17 OD: EZ <= NM <= HR");
    }
    assert!(hr.hit_windows.od_great <= nm.hit_windows.od_great + 1e-9 && nm.hit_windows.od_great <= ez.hit_windows.od_great + 1e-9,
        "C17 great window: HR <= NM <= EZ");
    kani::cover!(hr.cs == 10.0, "HR CS capped at 10");
    kani::cover!(od > 8.0, "high OD");
}

macro_rules! c17_inst {
    ($f:ident, $name:ident, $mode:literal, $rate:literal) => {
        #[kani::proof]
        #[kani::unwind(3)]
        pub fn $name() {
            $f::<$mode, $rate>();
        }
    };
}
// RATES index: 2 = 0.75, 3 = 1.0, 4 = 1.2, 5 = 1.5; 8 = no explicit rate (mods decide)
c17_inst!(windows_monotone, c17_monotone_osu_r15, 0, 5);
c17_inst!(windows_monotone, c17_monotone_taiko_r075, 1, 2);
c17_inst!(windows_monotone, c17_monotone_mania_r1, 3, 3);
c17_inst!(windows_monotone, c17_monotone_catch_r12, 2, 4);
c17_inst!(windows_clock_scaling, c17_scaling_osu_r15, 0, 5);
c17_inst!(windows_clock_scaling, c17_scaling_taiko_r075, 1, 2);
c17_inst!(windows_clock_scaling, c17_scaling_taiko_r12, 1, 4);
c17_inst!(windows_clock_scaling, c17_scaling_catch_r2, 2, 6);
c17_inst!(hr_ez_ordering, c17_hr_ez_osu_r1, 0, 3);
c17_inst!(hr_ez_ordering, c17_hr_ez_taiko_r15, 1, 5);
c17_inst!(hr_ez_ordering, c17_hr_ez_mania_r1, 3, 3);
c17_inst!(hr_ez_ordering, c17_hr_ez_catch_r075, 2, 2);

// ---- C09(3): no NaN / inf over the documented input range ----------------------------------------
// ((a) "build().hit_windows == hit_windows()" is not asserted: build() literally calls
// self.hit_windows(), and comparing two symbolic copies of the same float circuits is a miter the
// SAT back end did not close within 40 minutes even on a whole-number grid.)

#[kani::proof]
#[kani::unwind(9)]
pub fn c17_build_vs_hit_windows_finite() {
    let mode = any_mode();
    let is_convert: bool = kani::any();
    let with_mods: bool = kani::any();
    let (ar, od, cs, hp) = (grid(-200, 200), grid(-200, 200), grid(-200, 200), grid(-200, 200));
    let a = builder(mode, is_convert, any_mod_bits(), any_rate()).ar(ar, with_mods).od(od, with_mods).cs(cs, with_mods).hp(hp, with_mods).build();
    for x in [a.ar, a.od, a.cs, a.hp, a.clock_rate, a.hit_windows.ar, a.hit_windows.od_great] {
        assert!(x.is_finite(), "C09 attribute builder output is finite");
    }
    assert!(a.clock_rate > 0.0, "C09 clock rate positive");
    assert!(a.hit_windows.od_ok.map_or(true, f64::is_finite) && a.hit_windows.od_meh.map_or(true, f64::is_finite), "C09 optional hit windows are finite");
    kani::cover!(ar < -19.0 && od > 19.0, "extreme corner of the documented range");
}

// ---- Difficulty-driven builder == explicit builder (C08: rate mods vs explicit clock rate) ---------

#[kani::proof]
#[kani::unwind(3)]
pub fn c17_difficulty_matches_explicit() {
    let mode = any_mode();
    let v = grid(0, 100);
    let with_mods: bool = kani::any();
    let base = any_mod_bits() & (EZ | HR);
    // DT as a mod vs. explicit clock rate 1.5 (and HT / 0.75)
    let dt: bool = kani::any();
    let (bits, rate) = if dt { (DT, 1.5) } else { (HT, 0.75) };
    let by_mod = BeatmapAttributesBuilder::new().mode(mode, false)
        .difficulty(&Difficulty::new().mods(base | bits).ar(v, with_mods).od(v, with_mods)).build();
    let by_rate = BeatmapAttributesBuilder::new().mode(mode, false)
        .difficulty(&Difficulty::new().mods(base).clock_rate(rate).ar(v, with_mods).od(v, with_mods)).build();
    assert!(by_mod == by_rate, "C08 a legacy rate mod equals the corresponding explicit clock_rate");
    let direct = builder(mode, false, base, Some(rate)).ar(v, with_mods).od(v, with_mods).build();
    assert!(direct == by_rate, "C17 Difficulty-driven builder equals the explicit builder");
    kani::cover!(dt && mode == GameMode::Catch, "DT on catch");
}

verif_replay_table!(verif_replay_c17;
    c17_roundtrip_with_mods, c17_monotone_osu_r15, c17_monotone_taiko_r075, c17_monotone_mania_r1, c17_monotone_catch_r12,
    c17_scaling_osu_r15, c17_scaling_taiko_r075, c17_scaling_taiko_r12, c17_scaling_catch_r2,
    c17_hr_ez_osu_r1, c17_hr_ez_taiko_r15, c17_hr_ez_mania_r1, c17_hr_ez_catch_r075,
    c17_build_vs_hit_windows_finite, c17_difficulty_matches_explicit,
);
