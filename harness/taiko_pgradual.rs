// harness site: src/taiko/performance/gradual.rs
#![allow(dead_code, unused_imports, clippy::all, clippy::pedantic)]
