// harness site: src/taiko/difficulty/gradual.rs
#![allow(dead_code, unused_imports, clippy::all, clippy::pedantic)]
