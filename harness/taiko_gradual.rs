// harness site: src/taiko/difficulty/gradual.rs — S1' (initial-state literal + bounded symbolic
// history), DESIGN.md §4a. For taiko the relation between `idx`, the 'static iterator position and
// `max_combo` is too intricate to state as a one-step invariant, so the struct is written as a
// literal in the state `new()` establishes and then H symbolic calls (next / nth(n), any n) are
// made, with the post-condition checked after every call.
//
// Properties: C15, C02 (max_combo and processed difficulty objects of the prefix: value v stands
// for "v hits passed", as the one-shot path with passed_objects(v) defines it), C14 (taiko max
// combo == hits), C11 (the lifetime-extended iterator), C05.
#![allow(dead_code, unused_imports, clippy::all, clippy::pedantic)]

use super::*;
use crate::model::hit_object::{HitObjectKind, Spinner};
use crate::taiko::object::HitType;
use crate::taiko::Taiko;
use crate::verif_harness::common::{ghost_probe, verif_replay_table};
use rosu_map::util::Pos;

use super::super::color::color_data::ColorData;
use super::super::object::MonoIndex;
use super::super::rhythm::rhythm_data::RhythmData;
use super::super::skills::{color::Color, reading::Reading, rhythm::Rhythm, stamina::Stamina};

static mut LOG: [usize; 16] = [0; 16];
static mut LOG_LEN: usize = 0;
static mut OTHER_CALLS: usize = 0;

fn rec_rhythm(_s: &mut Rhythm, curr: &TaikoDifficultyObject, _o: &TaikoDifficultyObjects) {
    unsafe {
        if LOG_LEN < 16 {
            LOG[LOG_LEN] = curr.idx;
        }
        LOG_LEN += 1;
    }
}
fn rec_reading(_s: &mut Reading, _c: &TaikoDifficultyObject, _o: &TaikoDifficultyObjects) {
    unsafe { OTHER_CALLS += 1 }
}
fn rec_color(_s: &mut Color, _c: &TaikoDifficultyObject, _o: &TaikoDifficultyObjects) {
    unsafe { OTHER_CALLS += 1 }
}
fn rec_stamina(_s: &mut Stamina, _c: &TaikoDifficultyObject, _o: &TaikoDifficultyObjects) {
    unsafe { OTHER_CALLS += 1 }
}
fn no_eval(_a: &mut TaikoDifficultyAttributes, _s: TaikoSkills, _r: bool) {
    core::mem::forget(_s);
}

#[derive(Clone, Copy)]
struct Call {
    nth: bool,
    n: usize,
}

#[derive(Clone, Copy)]
struct Witness<const N: usize, const H: usize> {
    is_hit: [bool; N],
    calls: [Call; H],
}

fn any_witness<const N: usize, const H: usize>() -> Witness<N, H> {
    let mut calls = [Call { nth: false, n: 0 }; H];
    for c in calls.iter_mut() {
        c.nth = kani::any();
        c.n = kani::any();
    }
    Witness { is_hit: kani::any(), calls }
}

fn map_of<const N: usize, const H: usize>(w: &Witness<N, H>) -> Beatmap {
    let mut map = Beatmap { mode: GameMode::Taiko, ..Beatmap::default() };
    for i in 0..N {
        map.hit_objects.push(HitObject {
            pos: Pos::new(0.0, 0.0),
            start_time: 500.0 * (i as f64),
            kind: if w.is_hit[i] { HitObjectKind::Circle } else { HitObjectKind::Spinner(Spinner { duration: 100.0 }) },
        });
        map.hit_sounds.push(Default::default());
    }
    map
}

fn literal_initial_state<const N: usize, const H: usize>(w: &Witness<N, H>) -> TaikoGradualDifficulty {
    let n_diff = if N >= 2 { N - 2 } else { 0 };
    let mut diff_objects = TaikoDifficultyObjects {
        objects: Vec::with_capacity(n_diff),
        center_hit_objects: Vec::new(),
        rim_hit_objects: Vec::new(),
        note_objects: Vec::new(),
    };
    for i in 0..n_diff {
        diff_objects.objects.push(RefCount::new(TaikoDifficultyObject {
            idx: i,
            delta_time: 500.0,
            start_time: 500.0 * ((i + 2) as f64),
            base_hit_type: if w.is_hit[i + 2] { HitType::Center } else { HitType::NonHit },
            mono_idx: MonoIndex::None,
            note_idx: 0,
            rhythm_data: RhythmData::new(500.0, None),
            color_data: ColorData::default(),
            effective_bpm: 120.0,
        }));
    }
    let first_combos = match (
        if N > 0 { Some(w.is_hit[0]) } else { None },
        if N > 1 { Some(w.is_hit[1]) } else { None },
    ) {
        (None, _) | (Some(false), Some(false) | None) => FirstTwoCombos::None,
        (Some(true), Some(false) | None) => FirstTwoCombos::OnlyFirst,
        (Some(false), Some(true)) => FirstTwoCombos::OnlySecond,
        (Some(true), Some(true)) => FirstTwoCombos::Both,
    };
    let mut total_hits = 0;
    for i in 0..N {
        total_hits += usize::from(w.is_hit[i]);
    }
    // the module's own lifetime extension, as in `new()`
    let diff_objects_iter = extend_lifetime(diff_objects.iter());
    TaikoGradualDifficulty {
        idx: 0,
        difficulty: Difficulty::new(),
        attrs: TaikoDifficultyAttributes::default(),
        diff_objects,
        diff_objects_iter,
        skills: TaikoSkills::new(30.0, false),
        total_hits,
        first_combos,
    }
}

const SKIP_NTH_BEYOND: u8 = 1;

/// cumulative number of difficulty objects processed once `v` hits have been passed:
/// everything up to the v-th hit, of which objects 0 and 1 have no difficulty object
fn processed_after<const N: usize>(is_hit: &[bool; N], v: usize) -> usize {
    if v == 0 {
        return 0;
    }
    let mut seen = 0;
    let mut pos = 0;
    for i in 0..N {
        if is_hit[i] && seen < v {
            seen += 1;
            pos = i;
        }
    }
    if pos >= 2 { pos - 1 } else { 0 }
}

fn run_history<const N: usize, const H: usize>(g: &mut TaikoGradualDifficulty, w: &Witness<N, H>, map: Option<&Beatmap>, skip: u8) {
    let ghost = ghost_probe();
    let mut total = 0usize;
    for i in 0..N {
        total += usize::from(w.is_hit[i]);
    }
    let mut v = 0usize; // values produced so far == hits passed
    assert!(g.len() == total, "C15,C02 taiko: len() announces one value per hit");

    for c in w.calls.iter() {
        let available = total - v;
        let n = if c.nth { c.n } else { 0 };
        let res = if c.nth { g.nth(n) } else { g.next() };
        if n < available {
            v += n + 1;
            assert!(res.is_some(), "C15,C02 taiko: a value is produced while enough values remain");
            let a = res.unwrap();
            assert!(a.max_combo as usize == v, "C02,C15 taiko: max_combo equals the number of hits passed");
            assert!(g.idx == v, "C15 taiko: cursor advanced by n + 1");
            assert!(g.len() == total - v, "C15,C02 taiko: len() equals the number of values still to come");
            let (lo, hi) = g.size_hint();
            assert!(lo == total - v && hi == Some(lo), "C15 taiko: size_hint() agrees with len()");
            if ghost {
                let want = processed_after(&w.is_hit, v);
                unsafe {
                    assert!(LOG_LEN == want, "C02,C15 taiko: difficulty objects processed up to the hit, once each");
                    assert!(OTHER_CALLS == 4 * want, "C02,C15 taiko: all five skills process the same objects");
                    let mut j = 0;
                    while j < want && j < 16 {
                        assert!(LOG[j] == j, "C02,C15 taiko: processed objects in order");
                        j += 1;
                    }
                }
            } else if let Some(map) = map {
                let one = Difficulty::new().passed_objects(v as u32).calculate_for_mode::<Taiko>(map).unwrap();
                assert!(one.max_combo == a.max_combo, "C02,C15 taiko: max_combo equals one-shot passed_objects(i)");
                assert!(one == a, "C02,C15 taiko: value equals one-shot passed_objects(i)");
            }
        } else {
            if !(skip & SKIP_NTH_BEYOND != 0 && available > 0) {
                assert!(res.is_none(), "C15 taiko: nth(n) with fewer than n+1 values left returns None");
            }
            assert!(g.next().is_none(), "C15 taiko: exhausted calculator stays exhausted");
            return;
        }
    }
}

/// class 0: main domain (N >= 3, first two objects are hits); 1: nth beyond the end;
/// 2: maps of one or two objects that contain a hit; 3: a non-hit among the first two objects
fn restrict_to_class<const N: usize, const H: usize>(w: &Witness<N, H>, class: u8) {
    match class {
        0 => {
            if N >= 2 {
                kani::assume(w.is_hit[0] && w.is_hit[1]);
            }
        }
        1 => {
            kani::assume(N >= 3 && w.is_hit[0] && w.is_hit[1]);
            let mut total = 0usize;
            for i in 0..N {
                total += usize::from(w.is_hit[i]);
            }
            kani::assume(w.calls[0].nth && w.calls[0].n >= total);
        }
        2 => {
            kani::assume(w.is_hit[0]);
            kani::assume(!w.calls[0].nth);
        }
        _ => {
            // concrete pattern [hit, non-hit, hit, ...hits]: the cheapest witness of the class
            for i in 0..N {
                kani::assume(w.is_hit[i] == (i != 1));
            }
            for c in w.calls.iter() {
                kani::assume(!c.nth);
            }
        }
    }
}

fn s1_history<const N: usize, const H: usize>(skip: u8, class: u8) {
    let w = any_witness::<N, H>();
    restrict_to_class(&w, class);
    if ghost_probe() {
        let mut g = literal_initial_state(&w);
        run_history(&mut g, &w, None, skip);
        let kc = class != 0;
        kani::cover!(kc || N < 3 || (w.calls[0].nth && w.calls[0].n == 1 && !w.is_hit[N - 1]), "nth(1) first, trailing non-hit");
        kani::cover!(kc || N < 4 || (!w.is_hit[2] && w.is_hit[3] && w.calls[0].nth && w.calls[0].n == 2), "nth(2) across a non-hit");
        kani::cover!(kc || H < 2 || N < 3 || (w.calls[H - 1].nth && g.idx == 3), "history reaches the third hit");
        kani::cover!(true, "end reached");
        core::mem::forget(g);
    } else {
        let map = map_of(&w);
        let mut g = TaikoGradualDifficulty::new(Difficulty::new(), &map).unwrap();
        run_history(&mut g, &w, Some(&map), skip);
    }
}

macro_rules! s1_proof {
    ($name:ident, $n:literal, $h:literal, $unwind:literal) => {
        s1_proof!($name, $n, $h, $unwind, SKIP_NTH_BEYOND, 0);
    };
    ($name:ident, $n:literal, $h:literal, $unwind:literal, $skip:expr, $class:literal) => {
        #[kani::proof]
        #[kani::unwind($unwind)]
        #[kani::stub(<Rhythm as StrainSkill>::process, rec_rhythm)]
        #[kani::stub(<Reading as StrainSkill>::process, rec_reading)]
        #[kani::stub(<Color as StrainSkill>::process, rec_color)]
        #[kani::stub(<Stamina as StrainSkill>::process, rec_stamina)]
        #[kani::stub(crate::taiko::difficulty::DifficultyValues::eval, no_eval)]
        #[kani::stub(crate::verif_harness::common::ghost_probe, crate::verif_harness::common::ghost_probe_on)]
        pub fn $name() {
            s1_history::<$n, $h>($skip, $class);
        }
    };
}

s1_proof!(s1_taiko_hist_n0_h1, 0, 1, 7);
s1_proof!(s1_taiko_hist_n3_h1, 3, 1, 8);
s1_proof!(s1_taiko_hist_n4_h1, 4, 1, 9);
s1_proof!(s1_taiko_hist_n3_h2, 3, 2, 8);
s1_proof!(s1_taiko_hist_n4_h2, 4, 2, 9);

s1_proof!(kf_taiko_nth_beyond_end, 3, 1, 8, 0, 1);
s1_proof!(kf_taiko_short_map_n1, 1, 1, 7, SKIP_NTH_BEYOND, 2);
s1_proof!(kf_taiko_short_map_n2, 2, 1, 7, SKIP_NTH_BEYOND, 2);
s1_proof!(kf_taiko_nonhit_head_n3, 3, 2, 8, SKIP_NTH_BEYOND, 3);

verif_replay_table!(verif_replay_taiko_gradual;
    kf_taiko_nth_beyond_end, kf_taiko_short_map_n1, kf_taiko_short_map_n2, kf_taiko_nonhit_head_n3,
    s1_taiko_hist_n0_h1, s1_taiko_hist_n3_h1, s1_taiko_hist_n4_h1, s1_taiko_hist_n3_h2, s1_taiko_hist_n4_h2,
);
