// harness site: src/any/difficulty/skills.rs
#![allow(dead_code, unused_imports, clippy::all, clippy::pedantic)]
