// harness site: src/any/difficulty/skills.rs  (C16(3): re-aggregation; C09(4): degenerate strain lists)
#![allow(dead_code, unused_imports, clippy::all, clippy::pedantic)]

use super::*;
use crate::verif_harness::common::verif_replay_table;

const PEAKS: [f64; 4] = [0.0, 0.5, 2.75, 123.456];
const WEIGHTS: [f64; 2] = [0.9, 0.94];

fn any_peak() -> f64 {
    let i: u8 = kani::any();
    kani::assume(i < 4);
    PEAKS[i as usize]
}

/// difficulty_value(peaks, w) for two peaks == hi + lo * w (zeros dropped, larger first),
/// evaluated in the code's own order (0.0 + hi * 1.0 + lo * w), bit-equal; finite, non-negative.
#[kani::proof]
#[kani::unwind(6)]
pub fn c16_difficulty_value_k2() {
    let (a, b) = (any_peak(), any_peak());
    let mut sv = StrainsVec::with_capacity(4);
    sv.push(a);
    sv.push(b);
    let wi: u8 = kani::any();
    kani::assume(wi < 2);
    let w = WEIGHTS[wi as usize];
    let got = difficulty_value(sv, w);
    let (hi, lo) = if a >= b { (a, b) } else { (b, a) };
    let want = if hi == 0.0 {
        0.0
    } else if lo == 0.0 {
        0.0 + hi * 1.0
    } else {
        0.0 + hi * 1.0 + lo * (1.0 * w)
    };
    assert!(got.to_bits() == want.to_bits(), "C16 difficulty_value is the decay-weighted sum of the sorted non-zero peaks");
    assert!(got.is_finite() && got >= 0.0, "C09 difficulty_value is finite and non-negative");
    kani::cover!(a < b && a > 0.0, "ascending input gets sorted");
    kani::cover!(hi == 0.0, "all zeros");
}

/// The peaks a skill exports = its closed sections + the currently open one, ALWAYS (also when the
/// open section's peak is 0): all skills of a mode then report the same number of sections.
/// `get_current_strain_peaks` is a provided method of the StrainSkill trait; a dummy implementor
/// reaches it.
struct Dummy;
impl StrainSkill for Dummy {
    type DifficultyObject<'a> = ();
    type DifficultyObjects<'a> = ();
    fn process<'a>(&mut self, _c: &(), _o: &()) {}
    fn count_top_weighted_strains(&self, _d: f64) -> f64 {
        0.0
    }
    fn save_current_peak(&mut self) {}
    fn start_new_section_from<'a>(&mut self, _t: f64, _c: &(), _o: &()) {}
    fn into_current_strain_peaks(self) -> StrainsVec {
        StrainsVec::with_capacity(1)
    }
    fn difficulty_value(_p: StrainsVec) -> f64 {
        0.0
    }
    fn into_difficulty_value(self) -> f64 {
        0.0
    }
    fn cloned_difficulty_value(&self) -> f64 {
        0.0
    }
}

fn open_section<const K: usize>() {
    let mut sv = StrainsVec::with_capacity(4);
    let mut vals = [0.0f64; K];
    for i in 0..K {
        let v: f64 = kani::any();
        kani::assume(v >= 0.0 && v.is_finite());
        vals[i] = v;
        sv.push(v);
    }
    let cur: f64 = kani::any();
    kani::assume(cur >= 0.0 && cur.is_finite());
    let out = <Dummy as StrainSkill>::get_current_strain_peaks(sv, cur);
    assert!(out.len() == K + 1, "C16 exported peaks = closed sections + the open section, whatever its value");
    let mut it = out.iter();
    for i in 0..K {
        assert!(it.next() == Some(vals[i]), "C16 closed sections are exported unchanged");
    }
    assert!(it.next() == Some(cur), "C16 the open section is exported last");
    kani::cover!(cur == 0.0 && (K == 0 || vals[K - 1] > 0.0), "open section with zero peak");
    kani::cover!(cur > 0.0, "open section with positive peak");
    core::mem::forget(out);
}

#[kani::proof]
#[kani::unwind(6)]
pub fn c16_open_section_exported_k0() {
    open_section::<0>();
}

#[kani::proof]
#[kani::unwind(6)]
pub fn c16_open_section_exported_k2() {
    open_section::<2>();
}

#[kani::proof]
#[kani::unwind(5)]
pub fn c09_degenerate_strain_lists() {
    // empty list
    assert!(count_top_weighted_strains(&[], kani::any()) == 0.0, "C09 count_top_weighted_strains of no strains is 0");
    assert!(difficulty_value(StrainsVec::with_capacity(1), 0.9) == 0.0, "C09 difficulty_value of no peaks is 0");
    // difficulty value 0 (all-zero strains): no division by zero, the count is the list length
    let s = [0.0f64, 0.0, 0.0];
    let c = count_top_weighted_strains(&s, 0.0);
    assert!(c == 3.0 && !c.is_nan(), "C09 count_top_weighted_strains with zero difficulty does not divide by zero");
    kani::cover!(true, "end reached");
}

verif_replay_table!(verif_replay_any_skills;
    c16_difficulty_value_k2, c09_degenerate_strain_lists,
    c16_open_section_exported_k0, c16_open_section_exported_k2,
);
