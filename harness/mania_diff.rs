// harness site: src/mania/difficulty/mod.rs
#![allow(dead_code, unused_imports, clippy::all, clippy::pedantic)]
