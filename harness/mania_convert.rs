// harness site: src/mania/convert/mod.rs  (C19: key count of a mania convert)
#![allow(dead_code, unused_imports, clippy::all, clippy::pedantic)]

use super::*;
use crate::verif_harness::common::verif_replay_table;

use rosu_map::section::hit_objects::hit_samples::HitSoundType;

/// Legacy key-mod bits Key4..Key8 = 1<<15..1<<19, Key1 = 1<<26, Key3 = 1<<27, Key2 = 1<<28, Key9 = 1<<24.
fn legacy_key_values(bits: u32) -> [bool; 10] {
    use rosu_mods::GameModsLegacy as L;
    let m = L::from_bits(bits);
    let mut v = [false; 10];
    v[1] = m.contains(L::Key1);
    v[2] = m.contains(L::Key2);
    v[3] = m.contains(L::Key3);
    v[4] = m.contains(L::Key4);
    v[5] = m.contains(L::Key5);
    v[6] = m.contains(L::Key6);
    v[7] = m.contains(L::Key7);
    v[8] = m.contains(L::Key8);
    v[9] = m.contains(L::Key9);
    v
}

/// L objects of symbolic kind (circle / spinner / hold note — sliders are counted like spinners by
/// `target_columns`, and a slider value needs path geometry), cs and od on the grid k/10.
fn target_columns_any<const L: usize>() {
    let kcs: u8 = kani::any();
    let kod: u8 = kani::any();
    kani::assume(kcs <= 100 && kod <= 100);
    let mut map = Beatmap {
        cs: f32::from(kcs) / 10.0,
        od: f32::from(kod) / 10.0,
        ..Beatmap::default()
    };
    let kinds: [u8; L] = kani::any();
    let mut n_long = 0usize;
    for i in 0..L {
        kani::assume(kinds[i] < 3);
        let kind = match kinds[i] {
            0 => HitObjectKind::Circle,
            1 => {
                n_long += 1;
                HitObjectKind::Spinner(Spinner { duration: 100.0 })
            }
            _ => HitObjectKind::Hold(HoldNote { duration: 100.0 }),
        };
        map.hit_objects.push(HitObject { pos: Pos::new(0.0, 0.0), start_time: 0.0, kind });
        map.hit_sounds.push(HitSoundType::default());
    }
    let bits: u32 = kani::any();
    let mods = GameMods::from(bits);
    let keys = target_columns(&map, &mods);

    let kv = legacy_key_values(bits);
    let any_key = kv.iter().any(|b| *b);
    if any_key {
        let as_int = keys as usize;
        assert!(keys == as_int as f32 && as_int >= 1 && as_int <= 9 && kv[as_int], "C19 key count is the value of an active key mod");
    } else {
        assert!(keys == 4.0 || keys == 5.0 || keys == 6.0 || keys == 7.0, "C19 key count without key mod is between 4 and 7");
        if L > 0 && n_long * 5 < L {
            assert!(keys == 7.0, "C19 mostly-circle maps convert to 7K");
        }
    }
    kani::cover!(!any_key && keys == 4.0, "4K reached");
    kani::cover!(!any_key && keys == 5.0, "5K reached");
    kani::cover!(any_key && keys == 9.0, "9K key mod");
    core::mem::forget(map);
}

#[kani::proof]
#[kani::unwind(12)]
pub fn c19_target_columns_len0() {
    target_columns_any::<0>();
}

#[kani::proof]
#[kani::unwind(12)]
pub fn c19_target_columns_len5() {
    target_columns_any::<5>();
}

#[kani::proof]
#[kani::unwind(12)]
pub fn c19_target_columns_len8() {
    target_columns_any::<8>();
}

verif_replay_table!(verif_replay_mania_convert;
    c19_target_columns_len0, c19_target_columns_len5, c19_target_columns_len8,
);
