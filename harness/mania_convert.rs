// harness site: src/mania/convert/mod.rs
#![allow(dead_code, unused_imports, clippy::all, clippy::pedantic)]
