// harness site: src/model/beatmap/decode.rs  (C06: post-parse mechanisms; C11: point_split; C19(4))
//
// Encoded (real code): From<BeatmapState> for Beatmap (clamps, tandem sort of objects + sounds,
// mania legacy sort), BeatmapState::{add_control_point, flush_pending_points, add_pending_point,
// point_split}, ControlPoint::add for timing / difficulty / effect points (and the Vec<EffectPoint>
// impl the taiko converter uses), TimingPoint::new, DifficultyPoint::new.
#![allow(dead_code, unused_imports, clippy::all, clippy::pedantic)]

use super::*;
use crate::verif_harness::common::{any_f64_non_nan, any_mode, verif_replay_table};

/// an empty decoder state with small pre-allocations (the real `create()` reserves 512 objects,
/// which only costs solver memory)
fn small_state() -> BeatmapState {
    BeatmapState {
        version: 14,
        stack_leniency: DEFAULT_SLIDER_LENIENCY,
        mode: GameMode::Osu,
        has_approach_rate: false,
        difficulty: Difficulty::default(),
        breaks: Vec::new(),
        timing_points: Vec::with_capacity(4),
        difficulty_points: Vec::with_capacity(4),
        effect_points: Vec::with_capacity(4),
        hit_objects: Vec::with_capacity(4),
        hit_sounds: Vec::with_capacity(4),
        pending_control_points_time: 0.0,
        pending_timing_point: None,
        pending_difficulty_point: None,
        pending_effect_point: None,
        curve_points: Vec::new(),
        vertices: Vec::new(),
        point_split: Vec::with_capacity(4),
    }
}

fn any_f32_nn() -> f32 {
    let v: f32 = kani::any();
    kani::assume(!v.is_nan());
    v
}

// ---- difficulty section clamps --------------------------------------------------------------------

#[kani::proof]
#[kani::unwind(3)]
pub fn c06_difficulty_clamps() {
    let mut st = small_state();
    st.mode = any_mode();
    st.difficulty = Difficulty {
        hp_drain_rate: any_f32_nn(),
        circle_size: any_f32_nn(),
        overall_difficulty: any_f32_nn(),
        approach_rate: any_f32_nn(),
        slider_multiplier: any_f64_non_nan(),
        slider_tick_rate: any_f64_non_nan(),
    };
    let mode = st.mode;
    let map = Beatmap::from(st);
    assert!(map.hp >= 0.0 && map.hp <= 10.0, "C06 hp inside [0, 10]");
    assert!(map.od >= 0.0 && map.od <= 10.0, "C06 od inside [0, 10]");
    assert!(map.ar >= 0.0 && map.ar <= 10.0, "C06 ar inside [0, 10]");
    if mode == GameMode::Mania {
        assert!(map.cs >= 1.0 && map.cs <= 18.0, "C06 mania key count inside [1, 18]");
    } else {
        assert!(map.cs >= 0.0 && map.cs <= 10.0, "C06 cs inside [0, 10]");
    }
    assert!(map.slider_multiplier >= 0.4 && map.slider_multiplier <= 3.6, "C06 slider multiplier inside [0.4, 3.6]");
    assert!(map.slider_tick_rate >= 0.5 && map.slider_tick_rate <= 8.0, "C06 slider tick rate inside [0.5, 8]");
    assert!(!map.is_convert && map.mode == mode, "C06 decoded maps are not converts");
    kani::cover!(mode == GameMode::Mania && map.cs == 18.0, "mania upper clamp");
    kani::cover!(map.slider_tick_rate == 0.5, "tick rate lower clamp");
    core::mem::forget(map);
}

// ---- objects and sounds are sorted in tandem ------------------------------------------------------

/// N objects pushed in arbitrary (symbolic, non-NaN) time order, the i-th with sound tag i and
/// position tag i: the decoded map is sorted by time, stable, and every sound still sits with the
/// object it was written on. Mode is osu!/taiko/catch (mania re-sorts objects only, which is why
/// the property exempts it) unless MANIA, where only the order of the objects is asserted.
fn tandem<const N: usize, const MANIA: bool>() {
    let mut st = small_state();
    st.mode = if MANIA { GameMode::Mania } else { GameMode::Osu };
    let mut times = [0.0f64; N];
    for i in 0..N {
        times[i] = any_f64_non_nan();
        st.hit_objects.push(HitObject {
            pos: Pos::new(i as f32, 0.0),
            start_time: times[i],
            kind: HitObjectKind::Circle,
        });
        st.hit_sounds.push(HitSoundType::from(i as u8));
    }
    let map = Beatmap::from(st);
    assert!(map.hit_objects.len() == N && map.hit_sounds.len() == N, "C06 one sound per object");
    let mut seen = [false; N];
    for i in 0..N {
        let tag = map.hit_objects[i].pos.x as usize;
        assert!(tag < N && !seen[tag], "C06 every object appears exactly once");
        seen[tag] = true;
        assert!(map.hit_objects[i].start_time.to_bits() == times[tag].to_bits(), "C06 objects keep their start time");
        if !MANIA {
            assert!(u8::from(map.hit_sounds[i]) as usize == tag, "C06 each object keeps the sound written on its line");
        }
        if i > 0 {
            let prev = &map.hit_objects[i - 1];
            assert!(prev.start_time.total_cmp(&map.hit_objects[i].start_time).is_le(), "C06 objects in non-decreasing time order");
            if !MANIA && prev.start_time.total_cmp(&map.hit_objects[i].start_time).is_eq() {
                assert!((prev.pos.x as usize) < tag, "C06 equal times keep file order (stable)");
            }
        }
    }
    kani::cover!(N < 2 || times[0] > times[N - 1], "input out of order");
    kani::cover!(N < 2 || times[0] == times[1], "equal start times");
    core::mem::forget(map);
}

#[kani::proof]
#[kani::unwind(5)]
pub fn c06_tandem_objects_n2() {
    tandem::<2, false>();
}

#[kani::proof]
#[kani::unwind(6)]
pub fn c06_tandem_objects_n3() {
    tandem::<3, false>();
}

#[kani::proof]
#[kani::unwind(6)]
pub fn c06_tandem_objects_mania_n3() {
    tandem::<3, true>();
}

/// the same generic sorter on light element types (f64 keys / u8 tags) for a larger N
fn tandem_light<const N: usize>() {
    let mut keys = [0.0f64; N];
    let mut tags = [0u8; N];
    for i in 0..N {
        keys[i] = any_f64_non_nan();
        tags[i] = i as u8;
    }
    let orig = keys;
    let mut sorter = sort::TandemSorter::new_stable(&keys, |a: &f64, b: &f64| a.total_cmp(b));
    sorter.sort(&mut keys);
    sorter.sort(&mut tags);
    let mut seen = [false; N];
    for i in 0..N {
        let t = tags[i] as usize;
        assert!(t < N && !seen[t], "C06 tandem sort is a permutation");
        seen[t] = true;
        assert!(keys[i].to_bits() == orig[t].to_bits(), "C06 second slice follows the first");
        if i > 0 {
            assert!(keys[i - 1].total_cmp(&keys[i]).is_le(), "C06 tandem sort orders the keys");
            if keys[i - 1].total_cmp(&keys[i]).is_eq() {
                assert!(tags[i - 1] < tags[i], "C06 tandem sort is stable");
            }
        }
    }
    kani::cover!(keys[0] < keys[N - 1] && tags[0] as usize == N - 1, "reversal");
}

#[kani::proof]
#[kani::unwind(7)]
pub fn c06_tandem_light_n4() {
    tandem_light::<4>();
}

#[kani::proof]
#[kani::unwind(8)]
pub fn c06_tandem_light_n5() {
    tandem_light::<5>();
}

// ---- control points: one inductive step of sorted insertion -----------------------------------------

fn strictly_sorted(ts: &[f64]) -> bool {
    let mut ok = true;
    let mut i = 1;
    while i < ts.len() {
        ok &= ts[i - 1].total_cmp(&ts[i]).is_lt();
        i += 1;
    }
    ok
}

/// From an arbitrary strictly sorted vector of L effect points and an arbitrary new point:
/// `add` leaves it strictly sorted and unique, contains the new point, keeps all others.
/// (This is the Vec<EffectPoint> impl the taiko converter calls — C19 — and, through
/// BeatmapState, the decoder's.)
fn effect_add<const L: usize>() {
    let mut v: Vec<EffectPoint> = Vec::with_capacity(L + 1);
    let mut times = [0.0f64; L];
    for i in 0..L {
        times[i] = any_f64_non_nan();
        v.push(EffectPoint { time: times[i], kiai: kani::any(), scroll_speed: 1.0 });
    }
    kani::assume(strictly_sorted(&times));
    let new_t = any_f64_non_nan();
    let p = EffectPoint { time: new_t, kiai: kani::any(), scroll_speed: 2.0 };
    let existed = times.iter().any(|t| t.total_cmp(&new_t).is_eq());
    <EffectPoint as ControlPoint<Vec<EffectPoint>>>::add(p, &mut v);
    assert!(v.len() == if existed { L } else { L + 1 }, "C06 effect points: insert or replace");
    let mut i = 1;
    while i < v.len() {
        assert!(v[i - 1].time.total_cmp(&v[i].time).is_lt(), "C06 effect points stay strictly ordered by time");
        i += 1;
    }
    let mut found = false;
    for q in v.iter() {
        if q.time.total_cmp(&new_t).is_eq() {
            found = true;
            assert!(q.scroll_speed == 2.0, "C06 the new effect point replaces an existing one at the same time");
        }
    }
    assert!(found, "C06 the new effect point is present");
    for t in times.iter() {
        assert!(v.iter().any(|q| q.time.total_cmp(t).is_eq()), "C06 existing effect points are kept");
    }
    kani::cover!(existed, "replace");
    kani::cover!(L > 0 && !existed && new_t < times[0], "insert at the front");
    core::mem::forget(v);
}

#[kani::proof]
#[kani::unwind(6)]
pub fn c06_effect_point_add_l2() {
    effect_add::<2>();
}

#[kani::proof]
#[kani::unwind(7)]
pub fn c06_effect_point_add_l3() {
    effect_add::<3>();
}

/// Same step for timing and difficulty points through the decoder state
/// (add_pending_point -> flush_pending_points -> add_control_point).
fn state_points_step<const L: usize>() {
    let mut st = small_state();
    let mut times = [0.0f64; L];
    for i in 0..L {
        times[i] = any_f64_non_nan();
        st.timing_points.push(TimingPoint::new(times[i], 500.0));
        st.difficulty_points.push(DifficultyPoint { time: times[i], slider_velocity: 1.5, bpm_multiplier: 1.0, generate_ticks: true });
    }
    kani::assume(strictly_sorted(&times));
    let t = any_f64_non_nan();
    let beat_len = any_f64_non_nan();
    st.add_pending_point(t, TimingPoint::new(t, beat_len), true);
    st.add_pending_point(t, DifficultyPoint::new(t, beat_len, any_f64_non_nan()), false);
    st.flush_pending_points();
    let mut i = 1;
    while i < st.timing_points.len() {
        assert!(st.timing_points[i - 1].time.total_cmp(&st.timing_points[i].time).is_lt(), "C06 timing points stay strictly ordered by time");
        i += 1;
    }
    let mut i = 1;
    while i < st.difficulty_points.len() {
        assert!(st.difficulty_points[i - 1].time.total_cmp(&st.difficulty_points[i].time).is_lt(), "C06 difficulty points stay strictly ordered by time");
        i += 1;
    }
    assert!(st.timing_points.iter().any(|p| p.time.total_cmp(&t).is_eq()), "C06 the new timing point is present");
    assert!(st.timing_points.len() >= L && st.timing_points.len() <= L + 1, "C06 timing points: insert or replace");
    assert!(st.difficulty_points.len() >= L && st.difficulty_points.len() <= L + 1, "C06 difficulty points: insert, replace or redundant");
    for p in st.timing_points.iter() {
        assert!(p.beat_len >= 6.0 && p.beat_len <= 60_000.0, "C06 beat length inside [6, 60000]");
    }
    for p in st.difficulty_points.iter() {
        assert!(p.slider_velocity >= 0.1 && p.slider_velocity <= 10.0, "C06 slider velocity inside [0.1, 10]");
        assert!(p.bpm_multiplier >= 0.1 && p.bpm_multiplier <= 100.0, "C06 bpm multiplier inside [0.1, 100]");
    }
    kani::cover!(st.timing_points.len() == L, "timing point replaced");
    kani::cover!(st.difficulty_points.len() == L + 1, "difficulty point inserted");
    core::mem::forget(st);
}

#[kani::proof]
#[kani::unwind(6)]
pub fn c06_state_points_step_l2() {
    state_points_step::<2>();
}

#[kani::proof]
#[kani::unwind(7)]
pub fn c06_state_points_step_l3() {
    state_points_step::<3>();
}

// ---- point_split scratch buffer (C11) ------------------------------------------------------------

/// The borrowed-pointer scratch buffer is empty again when `point_split` returns, on the Ok and
/// on the Err path, and the closure sees exactly the slices that were passed in.
#[kani::proof]
#[kani::unwind(10)]
pub fn c11_point_split_cleared() {
    let mut st = small_state();
    let bytes: [u8; 6] = kani::any();
    for b in bytes.iter() {
        kani::assume(*b < 128);
    }
    let s = core::str::from_utf8(&bytes).unwrap();
    let a: usize = kani::any();
    let b: usize = kani::any();
    kani::assume(a <= b && b <= 6);
    let parts = [&s[..a], &s[a..b], &s[b..]];
    let k: usize = kani::any();
    kani::assume(k <= 3);
    let fail: bool = kani::any();
    let res: Result<usize, ()> = st.point_split(parts[..k].iter().copied(), |this, seen| {
        assert!(seen.len() == k, "C11 point_split: the closure sees every slice");
        let mut total = 0;
        for (i, p) in seen.iter().enumerate() {
            assert!(core::ptr::eq(p.as_ptr(), parts[i].as_ptr()) && p.len() == parts[i].len(), "C11 point_split: same slices, in order");
            total += p.len();
        }
        assert!(this.point_split.len() == k);
        if fail {
            Err(())
        } else {
            Ok(total)
        }
    });
    assert!(st.point_split.is_empty(), "C11 point_split: no borrowed pointer outlives the call");
    assert!(res.is_err() == fail);
    kani::cover!(k == 3 && fail, "error path with three slices");
    core::mem::forget(st);
}

verif_replay_table!(verif_replay_decode;
    c06_difficulty_clamps, c06_tandem_objects_n2, c06_tandem_objects_n3, c06_tandem_objects_mania_n3,
    c06_tandem_light_n4, c06_tandem_light_n5, c06_effect_point_add_l2, c06_effect_point_add_l3,
    c06_state_points_step_l2, c06_state_points_step_l3, c11_point_split_cleared,
);
