// harness site: src/model/beatmap/decode.rs
#![allow(dead_code, unused_imports, clippy::all, clippy::pedantic)]
