// harness site: src/catch/performance/mod.rs  (crate::catch::performance::verif_harness)
#![allow(dead_code, unused_imports, clippy::all, clippy::pedantic)]

use super::*;
use crate::verif_harness::common::VerifPerf;

/// Read access to the builder's private fields for harnesses in other modules (trait impls are
/// visible crate-wide even though this module's path is private). The destructuring is
/// exhaustive on purpose: a builder that grows a field stops compiling here instead of silently
/// escaping the comparison.
impl VerifPerf for CatchPerformance<'_> {
    type Attrs = crate::catch::CatchDifficultyAttributes;

    fn v_difficulty(&self) -> &crate::Difficulty {
        &self.difficulty
    }

    fn v_same_settings(&self, other: &Self) -> bool {
        let Self { map_or_attrs: _, difficulty: a_d, acc: a_acc, combo: a_combo, fruits: a_fruits, droplets: a_droplets, tiny_droplets: a_tiny_droplets, tiny_droplet_misses: a_tiny_droplet_misses, misses: a_misses, } = self;
        let Self { map_or_attrs: _, difficulty: b_d, acc: b_acc, combo: b_combo, fruits: b_fruits, droplets: b_droplets, tiny_droplets: b_tiny_droplets, tiny_droplet_misses: b_tiny_droplet_misses, misses: b_misses, } = other;
        a_d == b_d && a_acc == b_acc && a_combo == b_combo && a_fruits == b_fruits && a_droplets == b_droplets && a_tiny_droplets == b_tiny_droplets && a_tiny_droplet_misses == b_tiny_droplet_misses && a_misses == b_misses
    }

    fn v_map(&self) -> Option<&crate::Beatmap> {
        match self.map_or_attrs {
            MapOrAttrs::Map(ref m) => Some(m.as_ref()),
            MapOrAttrs::Attrs(_) => None,
        }
    }

    fn v_map_is_borrowed(&self) -> bool {
        matches!(self.map_or_attrs, MapOrAttrs::Map(std::borrow::Cow::Borrowed(_)))
    }

    fn v_attrs(&self) -> Option<&Self::Attrs> {
        match self.map_or_attrs {
            MapOrAttrs::Attrs(ref a) => Some(a),
            MapOrAttrs::Map(_) => None,
        }
    }
}
