// harness site: src/mania/convert/pattern_generator/mod.rs  (C19: get_column incl. the 8K special column)
#![allow(dead_code, unused_imports, clippy::all, clippy::pedantic)]

use super::*;
use crate::verif_harness::common::verif_replay_table;
use rosu_map::util::Pos;

use crate::model::hit_object::HitObjectKind;

/// get_column(allow_special) < total_columns for every x (any f32) and key count; with the 8K
/// special handling the result avoids column 0.
#[kani::proof]
#[kani::unwind(2)]
pub fn c19_get_column_any_x() {
    let k: i32 = kani::any();
    kani::assume(k >= 1 && k <= 10);
    let x: f32 = kani::any();
    let obj = HitObject {
        pos: Pos::new(x, kani::any()),
        start_time: 0.0,
        kind: HitObjectKind::Circle,
    };
    let map = Beatmap::default();
    let mut random = Random::new(kani::any());
    let gen = PatternGenerator::new(&obj, k, &mut random, &map);
    let allow = if kani::any() { Some(kani::any::<bool>()) } else { None };
    let col = gen.get_column(allow);
    assert!(i32::from(col) < k, "C19 get_column stays below the key count");
    if allow == Some(true) && k == 8 {
        assert!(col >= 1 && col <= 7, "C19 8K special column keeps the scratch lane free");
    }
    assert!(gen.random_start() == i32::from(k == 8));
    kani::cover!(allow == Some(true) && k == 8 && x > 600.0, "8K special, beyond the edge");
    kani::cover!(x.is_nan(), "NaN x");
    core::mem::forget(map);
}

verif_replay_table!(verif_replay_mania_patgen;
    c19_get_column_any_x,
);
