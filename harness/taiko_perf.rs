// harness site: src/taiko/performance/mod.rs  (crate::taiko::performance::verif_harness)
#![allow(dead_code, unused_imports, clippy::all, clippy::pedantic)]

use super::*;
use crate::verif_harness::common::VerifPerf;

/// Read access to the builder's private fields for harnesses in other modules (trait impls are
/// visible crate-wide even though this module's path is private). The destructuring is
/// exhaustive on purpose: a builder that grows a field stops compiling here instead of silently
/// escaping the comparison.
impl VerifPerf for TaikoPerformance<'_> {
    type Attrs = crate::taiko::TaikoDifficultyAttributes;

    fn v_difficulty(&self) -> &crate::Difficulty {
        &self.difficulty
    }

    fn v_same_settings(&self, other: &Self) -> bool {
        let Self { map_or_attrs: _, difficulty: a_d, combo: a_combo, acc: a_acc, hitresult_priority: a_hitresult_priority, n300: a_n300, n100: a_n100, misses: a_misses, } = self;
        let Self { map_or_attrs: _, difficulty: b_d, combo: b_combo, acc: b_acc, hitresult_priority: b_hitresult_priority, n300: b_n300, n100: b_n100, misses: b_misses, } = other;
        a_d == b_d && a_combo == b_combo && a_acc == b_acc && a_hitresult_priority == b_hitresult_priority && a_n300 == b_n300 && a_n100 == b_n100 && a_misses == b_misses
    }

    fn v_map(&self) -> Option<&crate::Beatmap> {
        match self.map_or_attrs {
            MapOrAttrs::Map(ref m) => Some(m.as_ref()),
            MapOrAttrs::Attrs(_) => None,
        }
    }

    fn v_map_is_borrowed(&self) -> bool {
        matches!(self.map_or_attrs, MapOrAttrs::Map(std::borrow::Cow::Borrowed(_)))
    }

    fn v_attrs(&self) -> Option<&Self::Attrs> {
        match self.map_or_attrs {
            MapOrAttrs::Attrs(ref a) => Some(a),
            MapOrAttrs::Map(_) => None,
        }
    }
}
