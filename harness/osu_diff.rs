// harness site: src/osu/difficulty/mod.rs
#![allow(dead_code, unused_imports, clippy::all, clippy::pedantic)]
