// harness site: src/catch/attributes.rs  (C14: catch object counting, regular vs gradual)
#![allow(dead_code, unused_imports, clippy::all, clippy::pedantic)]

use super::*;
use crate::verif_harness::common::verif_replay_table;

/// Stub for `ObjectCountBuilder::new_gradual`: identical except for the pre-allocated capacity
/// (8 instead of 512 entries) — a 4 KiB symbolic heap object per instance is what exhausts the
/// SAT back end, and capacity has no observable effect.
fn new_gradual_small() -> ObjectCountBuilder {
    ObjectCountBuilder::Gradual {
        count: GradualObjectCount::default(),
        all: Vec::with_capacity(8),
    }
}

#[derive(Clone, Copy)]
struct Event {
    kind: u8, // 0 fruit, 1 droplet, 2 tiny droplets
    n: u32,
}

fn run_regular<const K: usize>(ev: &[Event; K], take: usize) -> ObjectCount {
    let mut b = ObjectCountBuilder::new_regular(take);
    for e in ev.iter() {
        match e.kind {
            0 => b.record_fruit(),
            1 => b.record_droplet(),
            _ => b.record_tiny_droplets(e.n),
        }
    }
    b.into_regular()
}

/// Every event sequence of length K over {fruit, droplet, tiny(n)} and every `take`:
/// the one-shot count equals the sum of the first `take` gradual deltas, is monotone in `take`,
/// and any `take` at or above the number of fruits+droplets equals not limiting at all.
///
/// Which events are tiny-droplet events is fixed by the concrete bit set TINY (so the number of
/// `Vec::push` calls is a constant — a symbolic push count exhausts memory); whether a palpable
/// event is a fruit or a droplet, the tiny counts and `take` stay symbolic. The proof harnesses
/// enumerate every TINY pattern.
fn count_builder<const K: usize, const TINY: u32>() {
    let mut ev = [Event { kind: 0, n: 0 }; K];
    let mut n_palpable = 0usize;
    for i in 0..K {
        let n: u32 = kani::any();
        kani::assume(n <= 1000);
        let kind = if TINY & (1 << i) != 0 {
            2
        } else {
            n_palpable += 1;
            u8::from(kani::any::<bool>())
        };
        ev[i] = Event { kind, n };
    }
    let take: usize = kani::any();

    let reg = run_regular(&ev, take);

    // gradual deltas
    let mut g = ObjectCountBuilder::new_gradual();
    for e in ev.iter() {
        match e.kind {
            0 => g.record_fruit(),
            1 => g.record_droplet(),
            _ => g.record_tiny_droplets(e.n),
        }
    }
    let all = g.into_gradual();
    assert!(all.len() == n_palpable, "C14 catch: one gradual delta per fruit/droplet");

    let mut acc = CatchDifficultyAttributes::default();
    let upto = core::cmp::min(take, all.len());
    for (i, d) in all.iter().enumerate() {
        if i < upto {
            acc.add_object_count(*d);
        }
    }
    let mut one_shot = CatchDifficultyAttributes::default();
    one_shot.set_object_count(&reg);

    assert!(one_shot.n_fruits == acc.n_fruits, "C14 catch: one-shot fruits == sum of gradual deltas");
    assert!(one_shot.n_droplets == acc.n_droplets, "C14 catch: one-shot droplets == sum of gradual deltas");
    assert!(one_shot.n_tiny_droplets == acc.n_tiny_droplets, "C14 catch: one-shot tiny droplets == sum of gradual deltas");
    assert!((one_shot.n_fruits + one_shot.n_droplets) as usize == upto, "C14 catch: counted amount is min(n, total)");

    // monotone in take
    let take2: usize = kani::any();
    kani::assume(take2 >= take);
    let reg2 = run_regular(&ev, take2);
    assert!(reg2.fruits >= reg.fruits && reg2.droplets >= reg.droplets && reg2.tiny_droplets >= reg.tiny_droplets,
        "C14 catch: counts never decrease as n grows");

    // above the total == unlimited
    if take >= n_palpable {
        let unl = run_regular(&ev, usize::MAX);
        assert!(unl.fruits == reg.fruits && unl.droplets == reg.droplets && unl.tiny_droplets == reg.tiny_droplets,
            "C14 catch: n above the total equals not limiting");
    }

    kani::cover!(take < n_palpable || n_palpable == 0, "limited (or nothing to limit)");
    kani::cover!(take >= n_palpable, "unlimited");
    core::mem::forget(all);
}

// Reachability precondition: tiny droplets are only recorded between two events of one juice
// stream, whose last event is its tail fruit (catch/object/juice_stream.rs), so an event
// sequence never *ends* with tiny droplets: only TINY patterns with bit K-1 clear are run.
// (With trailing tiny droplets the one-shot count with take > #palpable would include them and
// the gradual sum would not — unreachable, hence excluded rather than reported.)

#[kani::proof]
#[kani::stub(ObjectCountBuilder::new_gradual, new_gradual_small)]
#[kani::unwind(6)]
pub fn c14_catch_count_builder_k3() {
    count_builder::<3, 0>();
    count_builder::<3, 1>();
    count_builder::<3, 2>();
    count_builder::<3, 3>();
}

#[kani::proof]
#[kani::stub(ObjectCountBuilder::new_gradual, new_gradual_small)]
#[kani::unwind(7)]
pub fn c14_catch_count_builder_k4_m0() {
    count_builder::<4, 0>();
    count_builder::<4, 1>();
}

#[kani::proof]
#[kani::stub(ObjectCountBuilder::new_gradual, new_gradual_small)]
#[kani::unwind(7)]
pub fn c14_catch_count_builder_k4_m2() {
    count_builder::<4, 2>();
    count_builder::<4, 3>();
}

#[kani::proof]
#[kani::stub(ObjectCountBuilder::new_gradual, new_gradual_small)]
#[kani::unwind(7)]
pub fn c14_catch_count_builder_k4_m4() {
    count_builder::<4, 4>();
    count_builder::<4, 5>();
}

#[kani::proof]
#[kani::stub(ObjectCountBuilder::new_gradual, new_gradual_small)]
#[kani::unwind(7)]
pub fn c14_catch_count_builder_k4_m6() {
    count_builder::<4, 6>();
    count_builder::<4, 7>();
}

#[kani::proof]
#[kani::stub(ObjectCountBuilder::new_gradual, new_gradual_small)]
#[kani::unwind(8)]
pub fn c14_catch_count_builder_k5_m06() {
    count_builder::<5, 6>();
    count_builder::<5, 7>();
}

#[kani::proof]
#[kani::stub(ObjectCountBuilder::new_gradual, new_gradual_small)]
#[kani::unwind(8)]
pub fn c14_catch_count_builder_k5_m10() {
    count_builder::<5, 10>();
    count_builder::<5, 11>();
}

#[kani::proof]
#[kani::stub(ObjectCountBuilder::new_gradual, new_gradual_small)]
#[kani::unwind(8)]
pub fn c14_catch_count_builder_k5_m12() {
    count_builder::<5, 12>();
    count_builder::<5, 13>();
}

#[kani::proof]
#[kani::stub(ObjectCountBuilder::new_gradual, new_gradual_small)]
#[kani::unwind(8)]
pub fn c14_catch_count_builder_k5_m14() {
    count_builder::<5, 14>();
    count_builder::<5, 15>();
}

verif_replay_table!(verif_replay_catch_attrs;
    c14_catch_count_builder_k3,
    c14_catch_count_builder_k4_m0,
    c14_catch_count_builder_k4_m2,
    c14_catch_count_builder_k4_m4,
    c14_catch_count_builder_k4_m6,
    c14_catch_count_builder_k5_m06,
    c14_catch_count_builder_k5_m10,
    c14_catch_count_builder_k5_m12,
    c14_catch_count_builder_k5_m14,
);
