// harness site: src/catch/attributes.rs
#![allow(dead_code, unused_imports, clippy::all, clippy::pedantic)]
