// C09 — finite, non-negative outputs: the guards and accuracies (narrow claim, DESIGN.md §5 C09).
//
// Encoded (real code): {Osu,Taiko,Catch,Mania}ScoreState::accuracy, OsuPerformance::calculate on
// plays without hits (early return), any::difficulty::skills helpers are in any_skills.rs.

use crate::{
    any::Difficulty,
    catch::CatchScoreState,
    mania::ManiaScoreState,
    osu::{OsuPerformance, OsuScoreOrigin, OsuScoreState},
    taiko::TaikoScoreState,
    verif_harness::c12_states::OsuShape,
};

fn any_le(max: u32) -> u32 {
    let v: u32 = kani::any();
    kani::assume(v <= max);
    v
}

fn unit(x: f64) -> bool {
    !x.is_nan() && x >= 0.0 && x <= 1.0
}

/// one origin per harness instance (ORIGIN: 0 stable, 1 slider accuracy, 2 classic slider accuracy)
fn osu_accuracy_unit<const ORIGIN: u8, const M: u32>() {
    let st = OsuScoreState {
        max_combo: kani::any(),
        large_tick_hits: any_le(M),
        small_tick_hits: any_le(M),
        slider_end_hits: any_le(M),
        n300: any_le(M),
        n100: any_le(M),
        n50: any_le(M),
        misses: any_le(M),
    };
    let origin = match ORIGIN {
        0 => OsuScoreOrigin::Stable,
        1 => OsuScoreOrigin::WithSliderAcc { max_large_ticks: any_le(M), max_slider_ends: any_le(M) },
        _ => OsuScoreOrigin::WithoutSliderAcc { max_large_ticks: any_le(M), max_small_ticks: any_le(M) },
    };
    let acc = st.accuracy(origin);
    assert!(unit(acc), "C09 osu accuracy lies in [0, 1] and is never NaN");
    if st.total_hits() == 0 && ORIGIN == 0 {
        assert!(acc == 0.0, "C09 osu accuracy of an empty stable score is 0");
    }
    kani::cover!(st.total_hits() == 0, "no hits");
    kani::cover!(acc == 1.0 && st.n300 > 0, "perfect accuracy");
}

#[kani::proof]
#[kani::unwind(3)]
pub fn c09_osu_accuracy_stable() {
    osu_accuracy_unit::<0, 65536>();
}

#[kani::proof]
#[kani::unwind(3)]
pub fn c09_osu_accuracy_slider_acc() {
    osu_accuracy_unit::<1, 32>();
}

#[kani::proof]
#[kani::unwind(3)]
pub fn c09_osu_accuracy_classic_slider_acc() {
    osu_accuracy_unit::<2, 32>();
}

#[kani::proof]
#[kani::unwind(3)]
pub fn c09_taiko_catch_accuracy_unit_interval() {
    const M: u32 = 1 << 16;
    let t = TaikoScoreState { max_combo: kani::any(), n300: any_le(M), n100: any_le(M), misses: any_le(M) };
    let a = t.accuracy();
    assert!(unit(a), "C09 taiko accuracy lies in [0, 1] and is never NaN");
    if t.total_hits() == 0 {
        assert!(a == 0.0, "C09 taiko accuracy without hits is 0");
    }
    let c = CatchScoreState {
        max_combo: kani::any(),
        fruits: any_le(M),
        droplets: any_le(M),
        tiny_droplets: any_le(M),
        tiny_droplet_misses: any_le(M),
        misses: any_le(M),
    };
    let b = c.accuracy();
    assert!(unit(b), "C09 catch accuracy lies in [0, 1] and is never NaN");
    if c.total_hits() == 0 {
        assert!(b == 0.0, "C09 catch accuracy without hits is 0");
    }
    kani::cover!(t.total_hits() == 0 && c.total_hits() == 0, "both empty");
    kani::cover!(a == 1.0 && b == 1.0 && t.n300 > 0, "both perfect");
}

#[kani::proof]
#[kani::unwind(3)]
pub fn c09_mania_accuracy_unit_interval() {
    const M: u32 = 1 << 8;
    let m = ManiaScoreState { n320: any_le(M), n300: any_le(M), n200: any_le(M), n100: any_le(M), n50: any_le(M), misses: any_le(M) };
    let classic: bool = kani::any();
    let a = m.accuracy(classic);
    assert!(unit(a), "C09 mania accuracy lies in [0, 1] and is never NaN");
    if m.total_hits() == 0 {
        assert!(a == 0.0, "C09 mania accuracy without hits is 0");
    }
    kani::cover!(m.total_hits() == 0, "empty");
    kani::cover!(a == 1.0 && !classic && m.n320 > 0, "perfect lazer accuracy");
}

/// A play with zero hits is worth zero pp (osu!: explicit early return). passed_objects(0) makes
/// the hit total a constant 0 so that the transcendental part of the calculator is pruned.
#[kani::proof]
#[kani::unwind(4)]
pub fn c09_osu_zero_hits_zero_pp() {
    let sh = OsuShape::any(100_000, 100_000, 1_000_000);
    let d = Difficulty::new().mods(kani::any::<u32>()).lazer(kani::any()).passed_objects(0);
    let res = OsuPerformance::new(sh.attrs()).difficulty(d).calculate().unwrap();
    assert!(res.pp == 0.0 && res.pp_acc == 0.0 && res.pp_aim == 0.0 && res.pp_flashlight == 0.0 && res.pp_speed == 0.0,
        "C09 osu: a play with zero hits is worth zero pp");
    assert!(res.effective_miss_count == 0.0, "C09 osu: no effective misses without hits");
    assert!(res.difficulty.n_circles == sh.n_circles && res.difficulty.max_combo == sh.max_combo,
        "C04 osu: the result embeds the difficulty attributes it was given");
    kani::cover!(sh.n_sliders > 0, "passed_objects(0) on a shape with sliders");
    kani::cover!(sh.n_objects() == 0, "empty shape");
}

verif_replay_table!(verif_replay_c09;
    c09_osu_accuracy_stable, c09_osu_accuracy_slider_acc, c09_osu_accuracy_classic_slider_acc, c09_taiko_catch_accuracy_unit_interval, c09_mania_accuracy_unit_interval,
    c09_osu_zero_hits_zero_pp,
);
