// C12 (accuracy paths) / C13 for taiko, catch, mania and the remaining osu! classes.
// Float arithmetic on a table (see c12_states.rs): accuracy = ACC_TABLE[i], i symbolic in [LO, HI).

use crate::{
    any::{Difficulty, HitResultPriority},
    catch::{CatchPerformance, CatchScoreState},
    mania::{ManiaPerformance, ManiaScoreState},
    taiko::{TaikoPerformance, TaikoScoreState},
    verif_harness::c12_states::{
        acc_from_table, catch_check, mania_check, osu_check, taiko_check, CatchGiven, CatchShape, ManiaGiven, ManiaShape,
        OsuGiven, OsuShape, TaikoGiven, TIE_EPS,
    },
    verif_harness::common::any_opt_u32_le,
};

fn any_le(max: u32) -> u32 {
    let v: u32 = kani::any();
    kani::assume(v <= max);
    v
}

fn any_priority() -> HitResultPriority {
    if kani::any() {
        HitResultPriority::BestCase
    } else {
        HitResultPriority::WorstCase
    }
}

// ------------------------------------------------------------------------------------------ osu
// C12 on the accuracy path with some hit results given (MASK bit 0 = n300, 1 = n100, 2 = n50).

fn osu_acc_given<const MASK: u8, const NMAX: u32, const LO: usize, const HI: usize>() {
    let sh = OsuShape::any(NMAX, 2, 2);
    let opt = |bit: u8| -> Option<u32> {
        if MASK & (1 << bit) != 0 {
            Some(any_le(NMAX + 2))
        } else {
            None
        }
    };
    let g = OsuGiven {
        combo: any_opt_u32_le(3 * NMAX),
        large: any_opt_u32_le(3),
        small: None,
        ends: any_opt_u32_le(3),
        n300: opt(0),
        n100: opt(1),
        n50: opt(2),
        misses: any_opt_u32_le(NMAX + 2),
        acc: Some(acc_from_table::<LO, HI>()),
        priority: any_priority(),
        passed: any_opt_u32_le(NMAX + 2),
        lazer: if kani::any() { Some(kani::any()) } else { None },
    };
    let st = osu_check(&sh, &g, 0);
    kani::cover!(sh.n_objects() == NMAX && st.misses > 0, "largest shape with misses");
    kani::cover!(sh.n_sliders > 0 && g.lazer != Some(false), "slider accuracy origin");
}

macro_rules! osu_acc_proof {
    ($name:ident, $mask:literal, $nmax:literal) => {
        #[kani::proof]
        #[kani::unwind(5)]
        pub fn $name() {
            osu_acc_given::<$mask, $nmax, 0, 2>();
        }
    };
}
osu_acc_proof!(c12_osu_acc_given_n300, 1, 4);
osu_acc_proof!(c12_osu_acc_given_n100, 2, 4);
osu_acc_proof!(c12_osu_acc_given_n50, 4, 4);
osu_acc_proof!(c12_osu_acc_given_two_a, 3, 5);
osu_acc_proof!(c12_osu_acc_given_two_b, 5, 5);
osu_acc_proof!(c12_osu_acc_given_two_c, 6, 5);
osu_acc_proof!(c12_osu_acc_given_all, 7, 5);
osu_acc_proof!(c12_osu_acc_given_none, 0, 3);

// ---------------------------------------------------------------------------------------- taiko

fn taiko_acc<const MASK: u8, const NMAX: u32, const LO: usize, const HI: usize>() {
    let max_combo = any_le(NMAX);
    let acc = acc_from_table::<LO, HI>();
    let g = TaikoGiven {
        combo: any_opt_u32_le(NMAX + 2),
        n300: if MASK & 1 != 0 { Some(any_le(NMAX + 2)) } else { None },
        n100: if MASK & 2 != 0 { Some(any_le(NMAX + 2)) } else { None },
        misses: any_opt_u32_le(NMAX + 2),
        acc: Some(acc),
        priority: any_priority(),
        passed: any_opt_u32_le(NMAX + 2),
    };
    let st = taiko_check(max_combo, &g, 0);
    if MASK == 0 {
        let n = core::cmp::min(g.passed.unwrap_or(u32::MAX), max_combo);
        assert!(st.misses == core::cmp::min(g.misses.unwrap_or(0), n), "C13 taiko: misses as given");
        let other = TaikoScoreState { max_combo: st.max_combo, n300: any_le(NMAX), n100: any_le(NMAX), misses: st.misses };
        kani::assume(other.n300 + other.n100 + other.misses == n);
        let target = acc.clamp(0.0, 100.0) / 100.0;
        let d_gen = (st.accuracy() - target).abs();
        let d_other = (other.accuracy() - target).abs();
        assert!(d_gen <= d_other + TIE_EPS, "C13 taiko: generated accuracy is the closest achievable");
    }
    kani::cover!(MASK != 0 || (max_combo >= 3 && st.n100 > 0 && st.n300 > 0), "mixed distribution");
    kani::cover!(max_combo == NMAX, "largest shape");
}

#[kani::proof]
#[kani::unwind(5)]
pub fn c13_taiko_acc_only_q() {
    taiko_acc::<0, 8, 0, 3>();
}
#[kani::proof]
#[kani::unwind(5)]
pub fn c13_taiko_acc_only_t() {
    taiko_acc::<0, 12, 3, 8>();
}
#[kani::proof]
#[kani::unwind(5)]
pub fn c12_taiko_acc_given_n300() {
    taiko_acc::<1, 8, 0, 3>();
}
#[kani::proof]
#[kani::unwind(5)]
pub fn c12_taiko_acc_given_n100() {
    taiko_acc::<2, 8, 0, 3>();
}
#[kani::proof]
#[kani::unwind(5)]
pub fn c12_taiko_acc_given_both() {
    taiko_acc::<3, 8, 0, 3>();
}

// ---------------------------------------------------------------------------------------- catch
// The accuracy only drives the tiny droplets (find_best_tiny_droplets).

fn catch_acc<const TINY_MASK: u8, const NMAX: u32, const TMAX: u32, const LO: usize, const HI: usize>() {
    let sh = CatchShape { n_fruits: any_le(NMAX), n_droplets: any_le(NMAX), n_tiny: any_le(TMAX) };
    kani::assume(sh.n_fruits + sh.n_droplets <= NMAX);
    let acc = acc_from_table::<LO, HI>();
    let g = CatchGiven {
        combo: any_opt_u32_le(NMAX + 2),
        fruits: any_opt_u32_le(NMAX + 2),
        droplets: any_opt_u32_le(NMAX + 2),
        tiny: if TINY_MASK & 1 != 0 { Some(any_le(TMAX + 2)) } else { None },
        tiny_misses: if TINY_MASK & 2 != 0 { Some(any_le(TMAX + 2)) } else { None },
        misses: any_opt_u32_le(NMAX + 2),
        acc: Some(acc),
    };
    let st = catch_check(&sh, &g, 0, None);
    if TINY_MASK == 0 && g.fruits.is_none() && g.droplets.is_none() {
        // C13: only accuracy (+ misses): no other tiny-droplet split over the same objects is closer
        let mut other = st.clone();
        other.tiny_droplets = any_le(TMAX);
        other.tiny_droplet_misses = any_le(TMAX);
        kani::assume(other.tiny_droplets + other.tiny_droplet_misses == sh.n_tiny);
        let target = acc.clamp(0.0, 100.0) / 100.0;
        let d_gen = (st.accuracy() - target).abs();
        let d_other = (other.accuracy() - target).abs();
        assert!(d_gen <= d_other + TIE_EPS, "C13 catch: generated accuracy is the closest achievable");
        assert!(st.misses == core::cmp::min(g.misses.unwrap_or(0), sh.n_fruits + sh.n_droplets), "C13 catch: misses as given");
    }
    kani::cover!(TINY_MASK != 0 || (sh.n_tiny >= 3 && st.tiny_droplets > 0 && st.tiny_droplet_misses > 0), "mixed tiny droplets");
    kani::cover!(sh.n_tiny == TMAX && sh.n_fruits + sh.n_droplets == NMAX, "largest shape");
}

#[kani::proof]
#[kani::unwind(5)]
pub fn c13_catch_acc_only_q() {
    catch_acc::<0, 6, 4, 0, 3>();
}
#[kani::proof]
#[kani::unwind(5)]
pub fn c13_catch_acc_only_t() {
    catch_acc::<0, 8, 6, 3, 8>();
}
#[kani::proof]
#[kani::unwind(5)]
pub fn c12_catch_acc_given_tiny() {
    catch_acc::<1, 6, 4, 0, 2>();
}
#[kani::proof]
#[kani::unwind(5)]
pub fn c12_catch_acc_given_both_tiny() {
    catch_acc::<3, 6, 4, 0, 2>();
}

// ---------------------------------------------------------------------------------------- mania
// The search arm (at least two hit results unknown): four nested float loops — tiny shapes only.

fn mania_acc_search<const MASK: u8, const NMAX: u32, const LO: usize, const HI: usize>() {
    let sh = ManiaShape { n_objects: any_le(NMAX), n_hold_notes: 0, max_combo: 0 };
    let acc = acc_from_table::<LO, HI>();
    let opt = |bit: u8| -> Option<u32> {
        if MASK & (1 << bit) != 0 {
            Some(any_le(NMAX + 1))
        } else {
            None
        }
    };
    let classic: bool = kani::any();
    let g = ManiaGiven {
        n320: opt(0),
        n300: opt(1),
        n200: opt(2),
        n100: opt(3),
        n50: opt(4),
        misses: any_opt_u32_le(NMAX + 1),
        acc: Some(acc),
        priority: any_priority(),
        passed: None,
        lazer: Some(!classic),
    };
    let st = mania_check(&sh, &g, 0);
    if MASK == 0 {
        let n = sh.n_objects;
        assert!(st.misses == core::cmp::min(g.misses.unwrap_or(0), n), "C13 mania: misses as given");
        let other = ManiaScoreState { n320: any_le(NMAX), n300: any_le(NMAX), n200: any_le(NMAX), n100: any_le(NMAX), n50: any_le(NMAX), misses: st.misses };
        kani::assume(other.total_hits() == n);
        let target = acc.clamp(0.0, 100.0) / 100.0;
        let d_gen = (st.accuracy(classic) - target).abs();
        let d_other = (other.accuracy(classic) - target).abs();
        assert!(d_gen <= d_other + TIE_EPS, "C13 mania: generated accuracy is the closest achievable");
    }
    kani::cover!(sh.n_objects == NMAX, "largest shape");
}

#[kani::proof]
#[kani::unwind(5)]
pub fn c13_mania_acc_only_n2() {
    mania_acc_search::<0, 2, 0, 2>();
}
#[kani::proof]
#[kani::unwind(5)]
pub fn c12_mania_acc_three_given() {
    mania_acc_search::<0b00111, 3, 0, 2>();
}

verif_replay_table!(verif_replay_c13;
    c12_osu_acc_given_n300, c12_osu_acc_given_n100, c12_osu_acc_given_n50, c12_osu_acc_given_two_a,
    c12_osu_acc_given_two_b, c12_osu_acc_given_two_c, c12_osu_acc_given_all, c12_osu_acc_given_none,
    c13_taiko_acc_only_q, c13_taiko_acc_only_t, c12_taiko_acc_given_n300, c12_taiko_acc_given_n100, c12_taiko_acc_given_both,
    c13_catch_acc_only_q, c13_catch_acc_only_t, c12_catch_acc_given_tiny, c12_catch_acc_given_both_tiny,
    c13_mania_acc_only_n2, c12_mania_acc_three_given,
);
