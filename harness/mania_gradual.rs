// harness site: src/mania/difficulty/gradual.rs
#![allow(dead_code, unused_imports, clippy::all, clippy::pedantic)]
