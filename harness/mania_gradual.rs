// harness site: src/mania/difficulty/gradual.rs — S1 (state-level inductive step), DESIGN.md §4a.
//
// Properties: C15 (iterator protocol), C02 (gradual == one-shot on the prefix; counters and
// processed objects), C14 (mania object / hold-note counts), C05 (no panic for any n: usize).
//
// One symbolic witness W = (object kinds, times, durations, clock rate, cursor p, call, n).
//  * under Kani: the gradual struct is written as a literal in cursor state p under the
//    representation invariant `new()` + p x next() establishes (counters = the one-shot counters
//    of the prefix, computed by the real `ManiaObject::new`), then ONE call is made; the skill's
//    `process` is a recording stub (ghost log of processed difficulty-object indices).
//  * natively (replay of a counterexample): the same witness is turned into a `Beatmap`, the real
//    `ManiaGradualDifficulty::new()` is advanced by p x next(), the same call is made with the
//    real skill, and the same assertions plus a comparison against the real one-shot
//    `calculate_for_mode` with `passed_objects` are evaluated — so only violations reachable
//    through the public API reproduce.
#![allow(dead_code, unused_imports, clippy::all, clippy::pedantic)]

use super::*;
use crate::verif_harness::common::{ghost_probe, verif_replay_table};
use crate::{
    mania::Mania,
    model::hit_object::{HitObjectKind, HoldNote},
};
use rosu_map::util::Pos;

// ---- ghost log of `Strain::process` calls -------------------------------------------------------
static mut LOG: [usize; 8] = [0; 8];
static mut LOG_LEN: usize = 0;

pub(crate) fn rec_process(_s: &mut Strain, curr: &ManiaDifficultyObject, _o: &[ManiaDifficultyObject]) {
    unsafe {
        if LOG_LEN < 8 {
            LOG[LOG_LEN] = curr.idx;
        }
        LOG_LEN += 1;
    }
}

pub(crate) fn zero_value(_s: &Strain) -> f64 {
    0.0
}

fn log_len() -> usize {
    unsafe { LOG_LEN }
}
fn log_at(i: usize) -> usize {
    unsafe { LOG[i] }
}

/// cut: slider path geometry (maps with sliders are outside this harness)
pub(crate) fn cut_curve<'a>(
    _s: &crate::model::hit_object::Slider,
    _m: GameMode,
    _b: &'a mut rosu_map::section::hit_objects::CurveBuffers,
) -> rosu_map::section::hit_objects::BorrowedCurve<'a> {
    kani::assume(false);
    unreachable!()
}

// ---- witness --------------------------------------------------------------------------------------

const START_OFFSETS: [f64; 4] = [0.0, 459.0, 462.0, 1.0];
const DURATIONS: [f64; 4] = [100.0, 200.0, 150.0, 99.5];
// 2.0 and 0.5 divide and multiply exactly, so hold-note combo under them is decided exactly; 1.2 is
// the rate of the known finding (float round trip), the only class whose combo assertion is skipped.
const RATES: [f64; 4] = [1.0, 2.0, 0.5, 1.2];

#[derive(Clone, Copy)]
pub(crate) struct Witness<const N: usize> {
    pub(crate) is_circle: [bool; N],
    pub(crate) start_k: [u8; N],
    pub(crate) dur_k: [u8; N],
    pub(crate) rate_k: u8, // 4 = no explicit clock rate
    pub(crate) p: usize,
    pub(crate) call: u8, // 0 next, 1 nth(n), 2 len only
    pub(crate) n: usize,
}

pub(crate) fn any_witness<const N: usize>() -> Witness<N> {
    let w = Witness::<N> {
        is_circle: kani::any(),
        start_k: kani::any(),
        dur_k: kani::any(),
        rate_k: kani::any(),
        p: kani::any(),
        call: kani::any(),
        n: kani::any(),
    };
    for i in 0..N {
        kani::assume(w.start_k[i] < 4 && w.dur_k[i] < 4);
    }
    kani::assume(w.rate_k <= 4 && w.p <= N && w.call < 3);
    w
}

pub(crate) fn difficulty_of<const N: usize>(w: &Witness<N>) -> Difficulty {
    if w.rate_k < 4 {
        Difficulty::new().clock_rate(RATES[w.rate_k as usize])
    } else {
        Difficulty::new()
    }
}

pub(crate) fn map_of<const N: usize>(w: &Witness<N>) -> Beatmap {
    let mut map = Beatmap {
        mode: GameMode::Mania,
        cs: 4.0,
        ..Beatmap::default()
    };
    for i in 0..N {
        let start = (i as f64) * 1000.0 + START_OFFSETS[w.start_k[i] as usize];
        let kind = if w.is_circle[i] {
            HitObjectKind::Circle
        } else {
            HitObjectKind::Hold(HoldNote {
                duration: DURATIONS[w.dur_k[i] as usize],
            })
        };
        map.hit_objects.push(HitObject {
            pos: Pos::new(0.0, 0.0),
            start_time: start,
            kind,
        });
        map.hit_sounds.push(Default::default());
    }
    map
}

/// One-shot counters of every prefix, computed with the real `ManiaObject::new` (the code
/// `DifficultyValues::calculate` counts with): `combo[k]`, `holds[k]` after k objects.
pub(crate) struct Model<const N: usize> {
    pub(crate) combo: [u32; 5],
    pub(crate) holds: [u32; 5],
}

pub(crate) fn model_and_objects<const N: usize>(map: &Beatmap) -> (Model<N>, Vec<ManiaObject>) {
    let mut params = ObjectParams::new(map);
    let mut m = Model::<N> {
        combo: [0; 5],
        holds: [0; 5],
    };
    let mut objs = Vec::with_capacity(N);
    for i in 0..N {
        objs.push(ManiaObject::new(&map.hit_objects[i], 4.0, &mut params));
        m.combo[i + 1] = params.max_combo();
        m.holds[i + 1] = params.n_hold_notes();
    }
    (m, objs)
}

// ---- the step and its post-conditions ------------------------------------------------------------

/// Known-finding classes (see /verif/known_findings.json). The main harnesses skip exactly the
/// assertion that is known to fail inside the class; the `kf_*` harnesses below restrict the
/// witness to the class and assert everything, so the finding is re-derived on every run and any
/// other failure — inside or outside the classes — is still reported.
const SKIP_NTH_BEYOND: u8 = 1; // nth(n) with n >= remaining > 0 returns Some(last)
const SKIP_COMBO_RATE: u8 = 2; // max_combo of hold notes under the inexact clock rate 1.2 (float round trip)

fn check_step<const N: usize>(g: &mut ManiaGradualDifficulty, w: &Witness<N>, m: &Model<N>, map: &Beatmap, skip: u8) {
    let p = w.p;
    let remaining = N - p;
    let ghost = ghost_probe();
    let log0 = log_len();

    assert!(g.len() == remaining, "C15,C02 mania: len() equals the number of values still to come");
    let (lo, hi) = g.size_hint();
    assert!(lo == g.len() && hi == Some(lo), "C15 mania: size_hint() agrees with len()");

    if w.call == 2 {
        return;
    }
    let n = if w.call == 0 { 0 } else { w.n };
    let res = if w.call == 0 { g.next() } else { g.nth(n) };

    if n < remaining {
        let k = p + n + 1; // number of objects the returned value accounts for
        assert!(res.is_some(), "C15,C02 mania: a value is produced while enough values remain");
        let a = res.unwrap();
        assert!(a.n_objects as usize == k, "C02,C15 mania: n_objects is the prefix length");
        let rate_is_inexact = w.rate_k == 3;
        let mut hold_in_prefix = false;
        for i in 0..N {
            if i < k && !w.is_circle[i] {
                hold_in_prefix = true;
            }
        }
        let combo_known_class = rate_is_inexact && hold_in_prefix;
        if !(skip & SKIP_COMBO_RATE != 0 && combo_known_class) {
            assert!(a.max_combo == m.combo[k], "C02,C15 mania: max_combo equals the one-shot count of the prefix");
        }
        assert!(a.n_hold_notes == m.holds[k], "C02,C15 mania: n_hold_notes equals the one-shot count of the prefix");
        assert!(g.idx == k, "C15 mania: cursor advanced by n + 1");
        assert!(g.len() == N - k, "C15 mania: len() after the call");
        if ghost {
            // processed exactly the difficulty objects of objects max(p,1) ..= k-1, once, in order
            let first = if p == 0 { 0 } else { p - 1 };
            let expect = (k - 1) - first;
            assert!(log_len() - log0 == expect, "C02,C15 mania: number of processed difficulty objects");
            let mut j = 0;
            while j < expect {
                assert!(log_at(log0 + j) == first + j, "C02,C15 mania: processed objects in order");
                j += 1;
            }
        } else {
            // native replay: compare with the real one-shot calculation on the prefix
            let one = difficulty_of(w)
                .passed_objects(k as u32)
                .calculate_for_mode::<Mania>(map)
                .unwrap();
            assert!(one.n_objects == a.n_objects, "C02,C15 mania: n_objects equals one-shot passed_objects(i)");
            if !(skip & SKIP_COMBO_RATE != 0 && combo_known_class) {
                assert!(one.max_combo == a.max_combo, "C02,C15 mania: max_combo equals one-shot passed_objects(i)");
            }
            assert!(one.n_hold_notes == a.n_hold_notes, "C02,C15 mania: n_hold_notes equals one-shot passed_objects(i)");
        }
    } else {
        if !(skip & SKIP_NTH_BEYOND != 0 && remaining > 0) {
            assert!(res.is_none(), "C15 mania: nth(n) with fewer than n+1 values left returns None");
        }
        assert!(g.next().is_none(), "C15 mania: exhausted calculator stays exhausted");
        assert!(g.len() == 0, "C15 mania: len() is 0 once exhausted");
    }
}

/// The gradual struct in cursor state `w.p` under the representation invariant of
/// `new()` + p x next(): counters = one-shot counters of the prefix.
pub(crate) fn literal_state<const N: usize, const M: usize>(
    w: &Witness<N>,
    m: &Model<N>,
    objs: &Vec<ManiaObject>,
    difficulty: Difficulty,
) -> ManiaGradualDifficulty {
    let clock_rate = difficulty.get_clock_rate();
    let mut diff = Vec::with_capacity(M);
    for i in 0..M {
        diff.push(ManiaDifficultyObject::new(&objs[i + 1], &objs[i], clock_rate, i));
    }
    let upto = if N == 0 { 0 } else { core::cmp::max(w.p, 1) };
    ManiaGradualDifficulty {
        idx: w.p,
        difficulty,
        objects_is_circle: Box::new(w.is_circle),
        is_convert: false,
        strain: Strain::new(4),
        diff_objects: diff.into_boxed_slice(),
        note_state: NoteState {
            curr_combo: m.combo[upto],
            n_hold_notes: m.holds[upto],
        },
    }
}

fn s1_step<const N: usize, const M: usize>(skip: u8, class: u8) {
    let w = any_witness::<N>();
    restrict_to_class(&w, class);
    let map = map_of(&w);
    let (m, objs) = model_and_objects::<N>(&map);
    let difficulty = difficulty_of(&w);

    if ghost_probe() {
        // ---- Kani: literal state at cursor p -----------------------------------------------------
        let mut g = literal_state::<N, M>(&w, &m, &objs, difficulty);
        check_step(&mut g, &w, &m, &map, skip);
        let kc = class != 0; // covers are only meaningful on the whole domain
        kani::cover!(kc || N < 2 || (w.call == 1 && w.n > 0 && w.n < N - w.p), "nth(n>0) inside the map");
        kani::cover!(kc || (w.call == 1 && w.n >= N - w.p), "nth beyond the end");
        kani::cover!(kc || N == 0 || (w.call == 0 && w.p < N), "next with values left");
        kani::cover!(kc || N == 0 || (w.rate_k == 3 && !w.is_circle[N - 1]), "hold note under a custom clock rate");
        core::mem::forget(g);
    } else {
        // ---- native replay through the public API -----------------------------------------------
        let mut g = ManiaGradualDifficulty::new(difficulty, &map).unwrap();
        for _ in 0..w.p {
            let _ = g.next();
        }
        check_step(&mut g, &w, &m, &map, skip);
    }
    core::mem::forget((map, objs));
}

/// class 0 = whole domain; 1 = nth beyond the end; 2 = hold notes under clock rate 1.2
fn restrict_to_class<const N: usize>(w: &Witness<N>, class: u8) {
    match class {
        1 => kani::assume(w.call == 1 && w.p < N && w.n >= N - w.p),
        2 => {
            kani::assume(w.call == 0 && w.rate_k == 3);
            for i in 0..N {
                kani::assume(!w.is_circle[i]);
            }
        }
        4 => kani::assume(w.call == 1 && w.p >= 1 && w.n >= 1 && w.n < N - w.p),
        _ => {}
    }
}

macro_rules! s1_proof {
    ($name:ident, $n:literal, $m:literal, $unwind:literal) => {
        s1_proof!($name, $n, $m, $unwind, SKIP_NTH_BEYOND | SKIP_COMBO_RATE, 0);
    };
    ($name:ident, $n:literal, $m:literal, $unwind:literal, $skip:expr, $class:literal) => {
        #[kani::proof]
        #[kani::unwind($unwind)]
        #[kani::stub(<Strain as StrainSkill>::process, rec_process)]
        #[kani::stub(<Strain as StrainSkill>::cloned_difficulty_value, zero_value)]
        #[kani::stub(crate::model::hit_object::Slider::curve, cut_curve)]
        #[kani::stub(crate::verif_harness::common::ghost_probe, crate::verif_harness::common::ghost_probe_on)]
        pub fn $name() {
            s1_step::<$n, $m>($skip, $class);
        }
    };
}

s1_proof!(s1_mania_step_n0, 0, 0, 6);
s1_proof!(s1_mania_step_n1, 1, 0, 6);
s1_proof!(s1_mania_step_n2, 2, 1, 6);
s1_proof!(s1_mania_step_n3, 3, 2, 7);
s1_proof!(s1_mania_step_n4, 4, 3, 8);

// C03: gradual performance built around the S1 state (body in harness/mania_pgradual.rs; the proof
// functions live here because the skill type is only nameable inside mania::difficulty)
macro_rules! c03_proof {
    ($name:ident, $n:literal, $m:literal, $unwind:literal) => {
        #[kani::proof]
        #[kani::unwind($unwind)]
        #[kani::stub(<Strain as StrainSkill>::process, rec_process)]
        #[kani::stub(<Strain as StrainSkill>::cloned_difficulty_value, zero_value)]
        #[kani::stub(crate::model::hit_object::Slider::curve, cut_curve)]
        #[kani::stub(crate::mania::ManiaPerformance::calculate, crate::mania::performance::gradual::verif_harness::rec_calculate)]
        #[kani::stub(crate::verif_harness::common::ghost_probe, crate::verif_harness::common::ghost_probe_on)]
        pub fn $name() {
            crate::mania::performance::gradual::verif_harness::pgradual_step::<$n, $m>();
        }
    };
}
c03_proof!(c03_mania_pgradual_n0, 0, 0, 10);
c03_proof!(c03_mania_pgradual_n1, 1, 0, 10);
c03_proof!(c03_mania_pgradual_n2, 2, 1, 10);
c03_proof!(c03_mania_pgradual_n3, 3, 2, 10);

// known findings, re-derived on every run (must fail exactly the listed assertion)
s1_proof!(kf_mania_nth_beyond_end, 2, 1, 6, 0, 1);
s1_proof!(s1_mania_nth_inside_n3, 3, 2, 7, SKIP_NTH_BEYOND | SKIP_COMBO_RATE, 4);
s1_proof!(kf_mania_combo_clock_rate, 2, 1, 6, SKIP_NTH_BEYOND, 2);

// ---- S2: the constructor side ------------------------------------------------------------------
// The S1 literal assumes the state `new()` establishes; here the real
// `ManiaGradualDifficulty::new()` runs on concrete tiny kind patterns (symbolic times / hold
// durations) and every value is compared with the one-shot counters of the prefix, which ties the
// S1 pre-states to what the constructor really builds (first object counted in `new()`!).

fn cut_contains_intermode<M>(_m: &rosu_mods::GameMods, _g: M) -> bool
where
    rosu_mods::GameModIntermode: From<M>,
{
    kani::assume(false);
    false
}

/// PATTERN bit i set => object i is a circle
fn s2_new<const N: usize, const PATTERN: u8>() {
    let mut w = any_witness::<N>();
    for i in 0..N {
        kani::assume(w.is_circle[i] == (PATTERN & (1 << i) != 0));
    }
    kani::assume(w.rate_k == 4 || w.rate_k == 0);
    w.p = 0;
    let map = map_of(&w);
    let (m, objs) = model_and_objects::<N>(&map);
    let mut g = ManiaGradualDifficulty::new(difficulty_of(&w), &map).unwrap();
    assert!(g.len() == N, "C15,C02 mania: new() announces one value per object");
    for k in 1..=N {
        let a = g.next();
        assert!(a.is_some(), "C15,C02 mania: a value is produced while enough values remain");
        let a = a.unwrap();
        assert!(a.n_objects as usize == k, "C02,C15 mania: n_objects is the prefix length");
        assert!(a.max_combo == m.combo[k], "C02,C15 mania: max_combo equals the one-shot count of the prefix");
        assert!(a.n_hold_notes == m.holds[k], "C02,C15 mania: n_hold_notes equals the one-shot count of the prefix");
        if !ghost_probe() {
            let one = difficulty_of(&w).passed_objects(k as u32).calculate_for_mode::<Mania>(&map).unwrap();
            assert!(one.max_combo == a.max_combo && one.n_hold_notes == a.n_hold_notes && one.n_objects == a.n_objects,
                "C02,C15 mania: counters equal one-shot passed_objects(i)");
        }
    }
    assert!(g.next().is_none(), "C15 mania: exhausted calculator stays exhausted");
    kani::cover!(N > 0 && w.dur_k[0] == 1, "first object with a 200 ms duration entry");
    kani::cover!(true, "end reached");
    core::mem::forget((g, map, objs));
}

macro_rules! s2_proof {
    ($name:ident, $n:literal, $pat:literal, $unwind:literal) => {
        #[kani::proof]
        #[kani::unwind($unwind)]
        #[kani::stub(<Strain as StrainSkill>::process, rec_process)]
        #[kani::stub(<Strain as StrainSkill>::cloned_difficulty_value, zero_value)]
        #[kani::stub(crate::model::hit_object::Slider::curve, cut_curve)]
        #[kani::stub(crate::verif_harness::common::ghost_probe, crate::verif_harness::common::ghost_probe_on)]
        pub fn $name() {
            s2_new::<$n, $pat>();
        }
    };
}

s2_proof!(s2_mania_new_single_hold, 1, 0b0, 6);
s2_proof!(s2_mania_new_hold_circle, 2, 0b10, 6);
s2_proof!(s2_mania_new_circle_hold, 2, 0b01, 6);

verif_replay_table!(verif_replay_mania_gradual;
    s2_mania_new_single_hold, s2_mania_new_hold_circle, s2_mania_new_circle_hold,
    s1_mania_nth_inside_n3,
    c03_mania_pgradual_n0, c03_mania_pgradual_n1, c03_mania_pgradual_n2, c03_mania_pgradual_n3,
    kf_mania_nth_beyond_end, kf_mania_combo_clock_rate,
    s1_mania_step_n0, s1_mania_step_n1, s1_mania_step_n2, s1_mania_step_n3, s1_mania_step_n4,
);
