// harness site: src/osu/difficulty/gradual.rs — S1 (state-level inductive step), DESIGN.md §4a.
//
// Properties: C15, C02 (counters + processed objects), C14 (circles + sliders + spinners ==
// objects passed, large ticks, max combo incl. hand-built sliders), C11 (the self-referential
// struct: every dereference through the lifetime-extended references is checked by CBMC's
// pointer checks, also after the struct has been moved), C05.
//
// Witness: N objects of symbolic kind (circle / spinner / slider with 0..=2 nested objects of
// symbolic kind — hand built, no path geometry), cursor p, one call, optional move of the struct.
#![allow(dead_code, unused_imports, clippy::all, clippy::pedantic)]

use super::*;
use crate::model::hit_object::{HitObject, HitObjectKind, Spinner};
use crate::osu::object::{NestedSliderObject, NestedSliderObjectKind, OsuSlider};
use crate::osu::Osu;
use crate::verif_harness::common::{ghost_probe, verif_replay_table};
use rosu_map::util::Pos;

use super::super::skills::{aim::Aim, flashlight::Flashlight, speed::Speed};

static mut LOG_AIM: [usize; 16] = [0; 16];
static mut LEN_AIM: usize = 0;
static mut LOG_SPEED: [usize; 8] = [0; 8];
static mut LEN_SPEED: usize = 0;
static mut LOG_FL: [usize; 8] = [0; 8];
static mut LEN_FL: usize = 0;

pub(crate) fn rec_aim<'a>(_s: &mut Aim, curr: &OsuDifficultyObject<'a>, _o: &[OsuDifficultyObject<'a>]) {
    unsafe {
        if LEN_AIM < 16 {
            LOG_AIM[LEN_AIM] = curr.idx;
        }
        LEN_AIM += 1;
    }
}
pub(crate) fn rec_speed<'a>(_s: &mut Speed, curr: &OsuDifficultyObject<'a>, _o: &[OsuDifficultyObject<'a>]) {
    unsafe {
        if LEN_SPEED < 8 {
            LOG_SPEED[LEN_SPEED] = curr.idx;
        }
        LEN_SPEED += 1;
    }
}
pub(crate) fn rec_fl<'a>(_s: &mut Flashlight, curr: &OsuDifficultyObject<'a>, _o: &[OsuDifficultyObject<'a>]) {
    unsafe {
        if LEN_FL < 8 {
            LOG_FL[LEN_FL] = curr.idx;
        }
        LEN_FL += 1;
    }
}
pub(crate) fn no_eval(_a: &mut OsuDifficultyAttributes, _m: &crate::GameMods, _s: &OsuSkills) {}

#[derive(Clone, Copy)]
pub(crate) struct Witness<const N: usize> {
    pub(crate) kind: [u8; N],      // 0 circle, 1 spinner, 2 slider
    pub(crate) n_nested: [u8; N],  // sliders: 0..=2 nested objects
    pub(crate) nested: [[u8; 2]; N], // 0 repeat, 1 tail, 2 tick
    pub(crate) p: usize,
    pub(crate) call: u8,
    pub(crate) n: usize,
}

pub(crate) fn any_witness<const N: usize>() -> Witness<N> {
    let w = Witness::<N> {
        kind: kani::any(),
        n_nested: kani::any(),
        nested: kani::any(),
        p: kani::any(),
        call: kani::any(),
        n: kani::any(),
    };
    for i in 0..N {
        kani::assume(w.kind[i] < 3 && w.n_nested[i] <= 2 && w.nested[i][0] < 3 && w.nested[i][1] < 3);
    }
    kani::assume(w.p <= N && w.call < 3);
    w
}

pub(crate) struct Model {
    pub(crate) circles: [u32; 5],
    pub(crate) sliders: [u32; 5],
    pub(crate) spinners: [u32; 5],
    pub(crate) ticks: [u32; 5],
    pub(crate) combo: [u32; 5],
}

pub(crate) fn model_of<const N: usize>(w: &Witness<N>) -> Model {
    let mut m = Model { circles: [0; 5], sliders: [0; 5], spinners: [0; 5], ticks: [0; 5], combo: [0; 5] };
    for i in 0..N {
        let (mut c, mut s, mut sp, mut t, mut co) = (0, 0, 0, 0, 1);
        match w.kind[i] {
            0 => c = 1,
            1 => sp = 1,
            _ => {
                s = 1;
                for j in 0..2 {
                    if (j as u8) < w.n_nested[i] {
                        co += 1;
                        if w.nested[i][j] != 1 {
                            t += 1;
                        }
                    }
                }
            }
        }
        m.circles[i + 1] = m.circles[i] + c;
        m.sliders[i + 1] = m.sliders[i] + s;
        m.spinners[i + 1] = m.spinners[i] + sp;
        m.ticks[i + 1] = m.ticks[i] + t;
        m.combo[i + 1] = m.combo[i] + co;
    }
    m
}

fn osu_object_of<const N: usize>(w: &Witness<N>, i: usize) -> OsuObject {
    let kind = match w.kind[i] {
        0 => OsuObjectKind::Circle,
        1 => OsuObjectKind::Spinner(Spinner { duration: 100.0 }),
        _ => {
            let mut nested = Vec::with_capacity(2);
            for j in 0..2 {
                if (j as u8) < w.n_nested[i] {
                    nested.push(NestedSliderObject {
                        pos: Pos::new(0.0, 0.0),
                        start_time: 0.0,
                        kind: match w.nested[i][j] {
                            0 => NestedSliderObjectKind::Repeat,
                            1 => NestedSliderObjectKind::Tail,
                            _ => NestedSliderObjectKind::Tick,
                        },
                    });
                }
            }
            OsuObjectKind::Slider(OsuSlider {
                end_time: 0.0,
                lazy_end_pos: Pos::new(0.0, 0.0),
                lazy_travel_dist: 0.0,
                lazy_travel_time: 0.0,
                nested_objects: nested,
            })
        }
    };
    OsuObject {
        pos: Pos::new(0.0, 0.0),
        start_time: 1000.0 * (i as f64),
        stack_height: 0,
        stack_offset: Pos::new(0.0, 0.0),
        kind,
    }
}

pub(crate) fn representable_as_map<const N: usize>(w: &Witness<N>) -> bool {
    let mut ok = true;
    for i in 0..N {
        ok &= w.kind[i] < 2;
    }
    ok
}

pub(crate) fn map_of<const N: usize>(w: &Witness<N>) -> Beatmap {
    let mut map = Beatmap { mode: GameMode::Osu, ..Beatmap::default() };
    for i in 0..N {
        map.hit_objects.push(HitObject {
            pos: Pos::new(100.0 + 30.0 * (i as f32), 100.0),
            start_time: 1000.0 * (i as f64),
            kind: if w.kind[i] == 0 { HitObjectKind::Circle } else { HitObjectKind::Spinner(Spinner { duration: 100.0 }) },
        });
        map.hit_sounds.push(Default::default());
    }
    map
}

const SKIP_NTH_BEYOND: u8 = 1;

fn check_counters(a: &OsuDifficultyAttributes, m: &Model, k: usize) {
    assert!(a.n_circles == m.circles[k], "C02,C15 osu: n_circles counts the circles of the prefix");
    assert!(a.n_sliders == m.sliders[k], "C02,C15 osu: n_sliders counts the sliders of the prefix");
    assert!(a.n_spinners == m.spinners[k], "C02,C15 osu: n_spinners counts the spinners of the prefix");
    assert!(a.n_large_ticks == m.ticks[k], "C02,C15 osu: n_large_ticks counts ticks and repeats of the prefix");
    assert!(a.max_combo == m.combo[k], "C02,C15 osu: max_combo counts objects and nested objects of the prefix");
    assert!((a.n_circles + a.n_sliders + a.n_spinners) as usize == k, "C14 osu: circles + sliders + spinners == objects passed");
}

fn check_step<const N: usize>(g: &mut OsuGradualDifficulty, w: &Witness<N>, m: &Model, map: Option<&Beatmap>, skip: u8) {
    let p = w.p;
    let remaining = N - p;
    let ghost = ghost_probe();
    let (a0, s0, f0) = unsafe { (LEN_AIM, LEN_SPEED, LEN_FL) };

    assert!(g.len() == remaining, "C15,C02 osu: len() equals the number of values still to come");
    let (lo, hi) = g.size_hint();
    assert!(lo == g.len() && hi == Some(lo), "C15 osu: size_hint() agrees with len()");
    if w.call == 2 {
        return;
    }
    let n = if w.call == 0 { 0 } else { w.n };
    let res = if w.call == 0 { g.next() } else { g.nth(n) };

    if n < remaining {
        let k = p + n + 1;
        assert!(res.is_some(), "C15,C02 osu: a value is produced while enough values remain");
        let a = res.unwrap();
        check_counters(&a, m, k);
        assert!(g.idx == k, "C15 osu: cursor advanced by n + 1");
        assert!(g.len() == N - k, "C15 osu: len() after the call");
        if ghost {
            let first = if p == 0 { 0 } else { p - 1 };
            let expect = (k - 1) - first;
            unsafe {
                assert!(LEN_AIM - a0 == 2 * expect && LEN_SPEED - s0 == expect && LEN_FL - f0 == expect,
                    "C02,C15 osu: every skill processes each difficulty object of the step exactly once");
                let mut j = 0;
                while j < expect {
                    assert!(LOG_AIM[a0 + 2 * j] == first + j && LOG_AIM[a0 + 2 * j + 1] == first + j, "C02,C15 osu: aim skills process objects in order");
                    assert!(LOG_SPEED[s0 + j] == first + j && LOG_FL[f0 + j] == first + j, "C02,C15 osu: speed/flashlight process objects in order");
                    j += 1;
                }
            }
        } else if let Some(map) = map {
            let one = Difficulty::new().passed_objects(k as u32).calculate_for_mode::<Osu>(map).unwrap();
            assert!(one == a, "C02,C15 osu: value equals one-shot passed_objects(i)");
        }
    } else {
        if !(skip & SKIP_NTH_BEYOND != 0 && remaining > 0) {
            assert!(res.is_none(), "C15 osu: nth(n) with fewer than n+1 values left returns None");
        }
        assert!(g.next().is_none(), "C15 osu: exhausted calculator stays exhausted");
        assert!(g.len() == 0, "C15 osu: len() is 0 once exhausted");
    }
}

pub(crate) fn literal_state<const N: usize, const M: usize>(w: &Witness<N>, m: &Model) -> OsuGradualDifficulty {
    let mut objs = Vec::with_capacity(N);
    for i in 0..N {
        objs.push(osu_object_of(w, i));
    }
    let objs: Box<[OsuObject]> = objs.into_boxed_slice();
    let mut diff = Vec::with_capacity(M);
    for i in 0..M {
        diff.push(OsuDifficultyObject {
            idx: i,
            // 'static reference into the sibling boxed slice, as `new()` + `extend_lifetime` create it
            // (built through a raw pointer: transmuting the whole boxed slice makes CBMC lose the
            // concrete slice length)
            base: unsafe { &*(&objs[i + 1] as *const OsuObject) },
            start_time: 1000.0 * ((i + 1) as f64),
            delta_time: 1000.0,
            strain_time: 1000.0,
            lazy_jump_dist: 0.0,
            min_jump_dist: 0.0,
            min_jump_time: 0.0,
            travel_dist: 0.0,
            travel_time: 0.0,
            angle: None,
        });
    }
    let diff_objects: Box<[OsuDifficultyObject<'static>]> = diff.into_boxed_slice();
    let upto = if N == 0 { 0 } else { core::cmp::max(w.p, 1) };
    let attrs = OsuDifficultyAttributes {
        n_circles: m.circles[upto],
        n_sliders: m.sliders[upto],
        n_spinners: m.spinners[upto],
        n_large_ticks: m.ticks[upto],
        max_combo: m.combo[upto],
        ..Default::default()
    };
    let mods = crate::GameMods::default();
    OsuGradualDifficulty {
        idx: w.p,
        difficulty: Difficulty::new(),
        attrs,
        skills: OsuSkills {
            aim: Aim::new(true),
            aim_no_sliders: Aim::new(false),
            speed: Speed::new(50.0, false),
            flashlight: Flashlight::new(&mods, 50.0, 1200.0, 400.0),
        },
        diff_objects,
        osu_objects: osu_objects::OsuObjects::new(objs),
        _not_clonable: NotClonable,
    }
}

fn restrict_to_class<const N: usize>(w: &Witness<N>, class: u8) {
    if class == 1 {
        kani::assume(w.call == 1 && w.p < N && w.n >= N - w.p);
    }
    if class == 4 {
        // nth(n >= 1) strictly inside the map from a non-zero cursor (the cheap slice of N = 3
        // that the quick tier runs)
        kani::assume(w.call == 1 && w.p >= 1 && w.n >= 1 && w.n < N - w.p);
    }
}

fn s1_step<const N: usize, const M: usize, const MOVE: bool>(skip: u8, class: u8) {
    let w = any_witness::<N>();
    restrict_to_class(&w, class);
    let m = model_of(&w);

    if ghost_probe() || !representable_as_map(&w) {
        let g = literal_state::<N, M>(&w, &m);
        // C11: the boxed slices keep their heap address when the struct itself moves
        // (MOVE is a const generic: a symbolic choice here turns every pointer field into an
        // if-then-else of two copies and exhausts memory)
        let mut g = if MOVE {
            let b = Box::new(g);
            let moved: OsuGradualDifficulty = *b;
            moved
        } else {
            g
        };
        check_step(&mut g, &w, &m, None, skip);
        let kc = class != 0;
        kani::cover!(kc || N < 2 || (w.call == 1 && w.n > 0 && w.n < N - w.p), "nth(n>0) inside the map");
        kani::cover!(kc || (w.call == 1 && w.n >= N - w.p), "nth beyond the end");
        kani::cover!(kc || N == 0 || (w.call == 0 && w.p < N && w.kind[w.p] == 2 && w.n_nested[w.p] == 2), "next onto a slider with two nested objects");
        kani::cover!(true, "end reached");
        core::mem::forget(g);
    } else {
        let map = map_of(w_ref(&w));
        let mut g = OsuGradualDifficulty::new(Difficulty::new(), &map).unwrap();
        for _ in 0..w.p {
            let _ = g.next();
        }
        let mut g = if MOVE { *Box::new(g) } else { g };
        check_step(&mut g, &w, &m, Some(&map), skip);
    }
}

fn w_ref<const N: usize>(w: &Witness<N>) -> &Witness<N> {
    w
}

macro_rules! s1_proof {
    ($name:ident, $n:literal, $m:literal, $unwind:literal) => {
        s1_proof!($name, $n, $m, $unwind, SKIP_NTH_BEYOND, 0, false);
    };
    ($name:ident, $n:literal, $m:literal, $unwind:literal, $skip:expr, $class:literal, $mv:literal) => {
        #[kani::proof]
        #[kani::unwind($unwind)]
        #[kani::stub(<Aim as StrainSkill>::process, rec_aim)]
        #[kani::stub(<Speed as StrainSkill>::process, rec_speed)]
        #[kani::stub(<Flashlight as StrainSkill>::process, rec_fl)]
        #[kani::stub(crate::osu::difficulty::DifficultyValues::eval, no_eval)]
        #[kani::stub(crate::verif_harness::common::ghost_probe, crate::verif_harness::common::ghost_probe_on)]
        pub fn $name() {
            s1_step::<$n, $m, $mv>($skip, $class);
        }
    };
}

// C03: gradual performance built around the S1 state (body in harness/osu_pgradual.rs)
macro_rules! c03_proof {
    ($name:ident, $n:literal, $m:literal, $unwind:literal) => {
        #[kani::proof]
        #[kani::unwind($unwind)]
        #[kani::stub(<Aim as StrainSkill>::process, rec_aim)]
        #[kani::stub(<Speed as StrainSkill>::process, rec_speed)]
        #[kani::stub(<Flashlight as StrainSkill>::process, rec_fl)]
        #[kani::stub(crate::osu::difficulty::DifficultyValues::eval, no_eval)]
        #[kani::stub(crate::osu::OsuPerformance::calculate, crate::osu::performance::gradual::verif_harness::rec_calculate)]
        #[kani::stub(crate::verif_harness::common::ghost_probe, crate::verif_harness::common::ghost_probe_on)]
        pub fn $name() {
            crate::osu::performance::gradual::verif_harness::pgradual_step::<$n, $m>();
        }
    };
}
c03_proof!(c03_osu_pgradual_n0, 0, 0, 10);
c03_proof!(c03_osu_pgradual_n1, 1, 0, 10);
c03_proof!(c03_osu_pgradual_n2, 2, 1, 10);
c03_proof!(c03_osu_pgradual_n3, 3, 2, 10);

s1_proof!(s1_osu_step_n0, 0, 0, 6);
s1_proof!(s1_osu_step_n1, 1, 0, 6);
s1_proof!(s1_osu_step_n2, 2, 1, 6);
s1_proof!(s1_osu_step_n3, 3, 2, 7);
s1_proof!(s1_osu_step_n4, 4, 3, 8);
s1_proof!(kf_osu_nth_beyond_end, 2, 1, 6, 0, 1, false);
s1_proof!(s1_osu_nth_inside_n3, 3, 2, 7, SKIP_NTH_BEYOND, 4, false);
// C11: the same step after the struct has been moved through a Box
s1_proof!(s1_osu_moved_step_n2, 2, 1, 6, SKIP_NTH_BEYOND, 0, true);
s1_proof!(s1_osu_moved_step_n3, 3, 2, 7, SKIP_NTH_BEYOND, 0, true);

verif_replay_table!(verif_replay_osu_gradual;
    s1_osu_nth_inside_n3,
    c03_osu_pgradual_n0, c03_osu_pgradual_n1, c03_osu_pgradual_n2, c03_osu_pgradual_n3,
    kf_osu_nth_beyond_end, s1_osu_moved_step_n2, s1_osu_moved_step_n3,
    s1_osu_step_n0, s1_osu_step_n1, s1_osu_step_n2, s1_osu_step_n3, s1_osu_step_n4,
);

