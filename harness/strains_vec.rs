// harness site: src/util/strains_vec.rs  (C10: feature builds agree; C11: union / transmute safety)
//
// The same harness source is verified under the default features and under
// `--features raw_strains` against ONE executable reference model (a plain [f64; K]): both builds
// equal to the model => equal to each other. Public API only (the fields live in a private
// inner module), fixed number K of pushes, symbolic values.
#![allow(dead_code, unused_imports, clippy::all, clippy::pedantic)]

use super::*;
use crate::verif_harness::common::verif_replay_table;

/// what a pushed value stands for: strictly positive values are kept, everything else is a zero
fn model_value(v: f64) -> f64 {
    if v.to_bits() > 0 && v.is_sign_positive() {
        v
    } else {
        0.0
    }
}

/// domain strains live in: non-negative (or -0.0), not NaN
fn any_strain() -> f64 {
    let v: f64 = kani::any();
    kani::assume(!v.is_nan() && (v >= 0.0));
    v
}

fn same(a: f64, b: f64) -> bool {
    // numerically equal (the two builds may differ in the sign of a zero)
    a == b
}

/// push x K, then len / iter (+ its len protocol) against the model
fn push_iter<const K: usize, const ALL_BITS: bool>() {
    let mut vals = [0.0f64; K];
    let mut sv = StrainsVec::with_capacity(4);
    for i in 0..K {
        vals[i] = if ALL_BITS { kani::any() } else { any_strain() };
        sv.push(vals[i]);
    }
    assert!(sv.len() == K, "C10,C11 StrainsVec: len counts every push");
    let mut it = sv.iter();
    for i in 0..K {
        assert!(it.len() == K - i, "C10,C11 StrainsVec: iterator announces the remaining length");
        let got = it.next();
        assert!(got.is_some(), "C10,C11 StrainsVec: iterator yields one item per push");
        let got = got.unwrap();
        if ALL_BITS {
            // C11: whatever was pushed, a zero-count is never exposed as a float: the item is either
            // the pushed value itself (bit-exact) or a zero
            let m = model_value(vals[i]);
            #[cfg(not(feature = "raw_strains"))]
            assert!(got.to_bits() == m.to_bits(), "C11 StrainsVec: iter yields the value or a zero, never a reinterpreted counter");
            let _ = m;
        } else {
            assert!(same(got, model_value(vals[i])), "C10 StrainsVec: iter yields the pushed values in order");
        }
    }
    assert!(it.next().is_none() && it.len() == 0, "C10,C11 StrainsVec: iterator ends after K items");
    kani::cover!(K >= 2 && vals[0] == 0.0 && vals[1] == 0.0, "zero run of length two");
    kani::cover!(K >= 2 && vals[0] > 0.0 && vals[K - 1] == 0.0, "value then zero");
    core::mem::forget(sv);
}

#[kani::proof]
#[kani::unwind(6)]
pub fn c10_strains_push_iter_k3() {
    push_iter::<3, false>();
}

#[kani::proof]
#[kani::unwind(7)]
pub fn c10_strains_push_iter_k4() {
    push_iter::<4, false>();
}

/// C11: every f64 bit pattern (negative, subnormal, both NaN signs, infinities)
#[kani::proof]
#[kani::unwind(6)]
pub fn c11_strains_push_iter_allbits_k3() {
    push_iter::<3, true>();
}

/// retain_non_zero + sort_desc + sorted_non_zero_iter_mut + transmute_into_vec
fn retain_sort<const K: usize, const ALL_BITS: bool>() {
    let mut vals = [0.0f64; K];
    let mut sv = StrainsVec::with_capacity(4);
    let mut n_pos = 0usize;
    for i in 0..K {
        vals[i] = if ALL_BITS { kani::any() } else { any_strain() };
        sv.push(vals[i]);
        if model_value(vals[i]).to_bits() != 0 {
            n_pos += 1;
        }
    }
    {
        let it = sv.sorted_non_zero_iter_mut();
        if !ALL_BITS {
            assert!(it.len() == n_pos, "C10 StrainsVec: sorted_non_zero_iter_mut drops exactly the zeros");
        }
        let mut prev: Option<f64> = None;
        let mut count = 0usize;
        for v in it {
            // every yielded item is one of the pushed positive values …
            let mut found = false;
            for j in 0..K {
                found |= v.to_bits() == model_value(vals[j]).to_bits() && model_value(vals[j]).to_bits() != 0;
            }
            if !(cfg!(feature = "raw_strains") && ALL_BITS) {
                assert!(found, "C11 StrainsVec: sorted iterator exposes only pushed positive values");
            }
            // … in descending total order
            if let Some(p) = prev {
                assert!(p.total_cmp(v).is_ge(), "C10 StrainsVec: sorted descending");
            }
            prev = Some(*v);
            count += 1;
        }
        assert!(count <= K);
    }
    // after retain_non_zero the storage may be reinterpreted as Vec<f64>
    let raw = unsafe { sv.transmute_into_vec() };
    if !ALL_BITS {
        assert!(raw.len() == n_pos, "C10 StrainsVec: transmuted vec holds the non-zero values");
    }
    for x in raw.iter() {
        if !(cfg!(feature = "raw_strains") && ALL_BITS) {
            assert!(x.is_sign_positive() && x.to_bits() != 0, "C11 StrainsVec: no zero-count is exposed as a float after retain_non_zero");
        }
    }
    kani::cover!(n_pos == K, "all values positive");
    kani::cover!(n_pos == 0, "all zeros");
    core::mem::forget(raw);
}

#[kani::proof]
#[kani::unwind(6)]
pub fn c10_strains_retain_sort_k2() {
    retain_sort::<2, false>();
}

#[kani::proof]
#[kani::unwind(6)]
pub fn c10_strains_retain_sort_k3() {
    retain_sort::<3, false>();
}

#[kani::proof]
#[kani::unwind(6)]
pub fn c11_strains_retain_sort_allbits_k2() {
    retain_sort::<2, true>();
}

#[kani::proof]
#[kani::unwind(6)]
pub fn c11_strains_retain_sort_allbits_k3() {
    retain_sort::<3, true>();
}

/// into_vec(): zero runs re-expanded. The zero pattern is enumerated (ZEROS bit i set => push i is
/// a zero) because a symbolic run length exhausts memory; positive values stay symbolic.
fn into_vec_pattern<const K: usize, const ZEROS: u32>() {
    let mut vals = [0.0f64; K];
    let mut sv = StrainsVec::with_capacity(4);
    for i in 0..K {
        vals[i] = if ZEROS & (1 << i) != 0 {
            0.0
        } else {
            let v = any_strain();
            kani::assume(v > 0.0);
            v
        };
        sv.push(vals[i]);
    }
    let v = sv.into_vec();
    assert!(v.len() == K, "C10 StrainsVec: into_vec has one entry per push");
    for i in 0..K {
        assert!(same(v[i], vals[i]), "C10 StrainsVec: into_vec re-expands zero runs in place");
    }
    core::mem::forget(v);
}

#[kani::proof]
#[kani::unwind(8)]
pub fn c10_strains_into_vec_k2() {
    into_vec_pattern::<2, 0>();
    into_vec_pattern::<2, 1>();
    into_vec_pattern::<2, 2>();
    into_vec_pattern::<2, 3>();
    kani::cover!(true, "end reached");
}

#[kani::proof]
#[kani::unwind(8)]
pub fn c10_strains_into_vec_k3() {
    into_vec_pattern::<3, 0>();
    into_vec_pattern::<3, 1>();
    into_vec_pattern::<3, 2>();
    into_vec_pattern::<3, 3>();
    into_vec_pattern::<3, 4>();
    into_vec_pattern::<3, 5>();
    into_vec_pattern::<3, 6>();
    into_vec_pattern::<3, 7>();
    kani::cover!(true, "end reached");
}

/// sum(): same addition order as the model (zeros contribute nothing)
#[kani::proof]
#[kani::unwind(6)]
pub fn c10_strains_sum_k3() {
    let mut vals = [0.0f64; 3];
    let mut sv = StrainsVec::with_capacity(4);
    for i in 0..3 {
        let v = any_strain();
        kani::assume(v.is_finite());
        vals[i] = v;
        sv.push(v);
    }
    let model: f64 = vals.iter().copied().sum();
    assert!(same(sv.sum(), model), "C10 StrainsVec: sum equals the plain sum of the pushed values");
    kani::cover!(vals[0] > 0.0 && vals[1] == 0.0 && vals[2] > 0.0, "zero between values");
    core::mem::forget(sv);
}

verif_replay_table!(verif_replay_strains_vec;
    c10_strains_push_iter_k3, c10_strains_push_iter_k4, c11_strains_push_iter_allbits_k3,
    c10_strains_retain_sort_k3, c11_strains_retain_sort_allbits_k3, c10_strains_into_vec_k3, c10_strains_sum_k3,
    c10_strains_retain_sort_k2, c11_strains_retain_sort_allbits_k2, c10_strains_into_vec_k2,
);
