// harness site: src/util/strains_vec.rs
#![allow(dead_code, unused_imports, clippy::all, clippy::pedantic)]
