// harness site: src/taiko/convert.rs
#![allow(dead_code, unused_imports, clippy::all, clippy::pedantic)]
