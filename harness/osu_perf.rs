// harness site: src/osu/performance/mod.rs  (crate::osu::performance::verif_harness)
#![allow(dead_code, unused_imports, clippy::all, clippy::pedantic)]

use super::*;
use crate::verif_harness::common::VerifPerf;

/// Read access to the builder's private fields for harnesses in other modules (trait impls are
/// visible crate-wide even though this module's path is private). The destructuring is
/// exhaustive on purpose: a builder that grows a field stops compiling here instead of silently
/// escaping the comparison.
impl VerifPerf for OsuPerformance<'_> {
    type Attrs = crate::osu::OsuDifficultyAttributes;

    fn v_difficulty(&self) -> &crate::Difficulty {
        &self.difficulty
    }

    fn v_same_settings(&self, other: &Self) -> bool {
        let Self { map_or_attrs: _, difficulty: a_d, acc: a_acc, combo: a_combo, large_tick_hits: a_large_tick_hits, small_tick_hits: a_small_tick_hits, slider_end_hits: a_slider_end_hits, n300: a_n300, n100: a_n100, n50: a_n50, misses: a_misses, hitresult_priority: a_hitresult_priority, } = self;
        let Self { map_or_attrs: _, difficulty: b_d, acc: b_acc, combo: b_combo, large_tick_hits: b_large_tick_hits, small_tick_hits: b_small_tick_hits, slider_end_hits: b_slider_end_hits, n300: b_n300, n100: b_n100, n50: b_n50, misses: b_misses, hitresult_priority: b_hitresult_priority, } = other;
        a_d == b_d && a_acc == b_acc && a_combo == b_combo && a_large_tick_hits == b_large_tick_hits && a_small_tick_hits == b_small_tick_hits && a_slider_end_hits == b_slider_end_hits && a_n300 == b_n300 && a_n100 == b_n100 && a_n50 == b_n50 && a_misses == b_misses && a_hitresult_priority == b_hitresult_priority
    }

    fn v_map(&self) -> Option<&crate::Beatmap> {
        match self.map_or_attrs {
            MapOrAttrs::Map(ref m) => Some(m.as_ref()),
            MapOrAttrs::Attrs(_) => None,
        }
    }

    fn v_map_is_borrowed(&self) -> bool {
        matches!(self.map_or_attrs, MapOrAttrs::Map(std::borrow::Cow::Borrowed(_)))
    }

    fn v_attrs(&self) -> Option<&Self::Attrs> {
        match self.map_or_attrs {
            MapOrAttrs::Attrs(ref a) => Some(a),
            MapOrAttrs::Map(_) => None,
        }
    }
}
