// C18 — builder settings mean the same thing wherever they are set.
//
// Encoded functions (real code): every setter of `Performance`, `OsuPerformance`,
// `TaikoPerformance`, `CatchPerformance`, `ManiaPerformance`, `Difficulty`,
// `Difficulty::inspect`, `InspectDifficulty::into_difficulty`.
// All setter arguments are fully symbolic (u32 / f64 / f32 / bool bit patterns).

use crate::verif_harness::common::{perf_difficulty, perf_same_settings, VerifPerf};
use crate::{
    any::{Difficulty, InspectDifficulty, ModsDependent, Performance},
    catch::{CatchDifficultyAttributes, CatchPerformance},
    mania::{ManiaDifficultyAttributes, ManiaPerformance},
    osu::{OsuDifficultyAttributes, OsuPerformance},
    taiko::{TaikoDifficultyAttributes, TaikoPerformance},
};

#[derive(Clone, Copy)]
struct Setter {
    which: u8,
    bits: u32,
    n: u32,
    rate: f64,
    val: f32,
    flag: bool,
}

const N_SETTERS: u8 = 9;

fn any_setter() -> Setter {
    let s = Setter {
        which: kani::any(),
        bits: kani::any(),
        n: kani::any(),
        rate: kani::any(),
        val: kani::any(),
        flag: kani::any(),
    };
    kani::assume(s.which < N_SETTERS);
    // NaN attribute overrides are stored as NaN and `PartialEq` on f32 would then make every
    // builder unequal to itself; the parser/bindings never produce them. Clock rate may be NaN
    // (compared by bit pattern inside `Difficulty`).
    kani::assume(!s.val.is_nan());
    s
}

fn apply_diff(d: Difficulty, s: &Setter) -> Difficulty {
    match s.which {
        0 => d.mods(s.bits),
        1 => d.passed_objects(s.n),
        2 => d.clock_rate(s.rate),
        3 => d.ar(s.val, s.flag),
        4 => d.cs(s.val, s.flag),
        5 => d.hp(s.val, s.flag),
        6 => d.od(s.val, s.flag),
        7 => d.hardrock_offsets(s.flag),
        _ => d.lazer(s.flag),
    }
}

fn apply_perf<'a>(p: Performance<'a>, s: &Setter) -> Performance<'a> {
    match s.which {
        0 => p.mods(s.bits),
        1 => p.passed_objects(s.n),
        2 => p.clock_rate(s.rate),
        3 => p.ar(s.val, s.flag),
        4 => p.cs(s.val, s.flag),
        5 => p.hp(s.val, s.flag),
        6 => p.od(s.val, s.flag),
        7 => p.hardrock_offsets(s.flag),
        _ => p.lazer(s.flag),
    }
}

/// Documented relevance of a `Performance` setter for a mode (0 osu, 1 taiko, 2 catch, 3 mania):
/// ar/cs "only relevant for osu! and osu!catch", hardrock_offsets "only relevant for osu!catch",
/// lazer "only relevant for osu!standard and osu!mania".
fn relevant(mode: u8, which: u8) -> bool {
    match which {
        3 | 4 => mode == 0 || mode == 2,
        7 => mode == 2,
        8 => mode == 0 || mode == 3,
        _ => true,
    }
}

fn difficulty_of(p: &Performance<'_>) -> Difficulty {
    perf_difficulty(p).clone()
}

fn check_clamps(d: Difficulty, s: &[Setter]) {
    let i = d.inspect();
    if let Some(r) = i.clock_rate {
        // stored clock rate is inside the documented bounds unless the argument was NaN
        let mut nan_arg = false;
        for x in s {
            if x.which == 2 && x.rate.is_nan() {
                nan_arg = true;
            }
        }
        if !nan_arg {
            assert!(r >= 0.01 && r <= 100.0, "C18 clock rate clamped to [0.01, 100]");
        }
    }
    for f in [i.ar, i.cs, i.hp, i.od] {
        if let Some(ModsDependent { value, .. }) = f {
            assert!(value >= -20.0 && value <= 20.0, "C18 attribute clamped to [-20, 20]");
        }
    }
    // the LAST setter of each kind decides the stored value: exactly the argument clamped to the
    // documented bounds (in-range arguments are stored unchanged) together with its flag
    let mut last: [Option<Setter>; 9] = [None; 9];
    for x in s {
        last[x.which as usize] = Some(*x);
    }
    if let Some(x) = last[2] {
        if !x.rate.is_nan() {
            assert!(i.clock_rate == Some(x.rate.clamp(0.01, 100.0)), "C18 stored clock rate is the argument clamped to [0.01, 100]");
        }
    }
    for (k, f) in [(3usize, i.ar), (4, i.cs), (5, i.hp), (6, i.od)] {
        if let (Some(x), Some(m)) = (last[k], f) {
            assert!(m.value == x.val.clamp(-20.0, 20.0) && m.with_mods == x.flag,
                "C18 stored attribute is the argument clamped to [-20, 20] with its with_mods flag");
        }
    }
    if let Some(x) = last[1] {
        assert!(i.passed_objects == Some(x.n), "C18 stored passed_objects is the argument");
    }
    if let (Some(x), Some(v)) = (last[7], i.hardrock_offsets) {
        assert!(v == x.flag, "C18 stored hardrock_offsets is the argument");
    }
    if let (Some(x), Some(v)) = (last[8], i.lazer) {
        assert!(v == x.flag, "C18 stored lazer flag is the argument");
    }
}

/// `mk` builds a fresh attribute-backed builder each time: `Performance: Clone/PartialEq` would
/// drag the (infeasible but not pruned) `MapOrAttrs::Map(Cow<Beatmap>)` arm into the formula, so
/// builders are compared field by field through `VerifPerf::v_same_settings` (all fields except
/// the attribute slot, which no setter touches — asserted separately via `v_attrs`).
fn any_perf_setters(mode: u8, mk: fn() -> Performance<'static>) {
    let s1 = any_setter();
    let s2 = any_setter();

    // own setters
    let pa = apply_perf(apply_perf(mk(), &s1), &s2);

    // same setters on a Difficulty (only those the mode documents as relevant: the others are
    // documented no-ops on `Performance`)
    let mut d = Difficulty::new();
    if relevant(mode, s1.which) {
        d = apply_diff(d, &s1);
    }
    if relevant(mode, s2.which) {
        d = apply_diff(d, &s2);
    }
    let pb = mk().difficulty(d.clone());
    assert!(perf_same_settings(&pa, &pb), "C18 Performance setters == difficulty(Difficulty setters)");
    assert!(*perf_difficulty(&pa) == d, "C18 stored difficulty equals the Difficulty built alone");

    // irrelevant setters leave the builder untouched
    if !relevant(mode, s1.which) {
        let pi = apply_perf(mk(), &s1);
        let p0 = mk();
        assert!(perf_same_settings(&pi, &p0), "C18 irrelevant setter is a no-op");
        core::mem::forget((pi, p0));
    }

    // independent setters commute
    if s1.which != s2.which {
        let pc = apply_perf(apply_perf(mk(), &s2), &s1);
        assert!(perf_same_settings(&pa, &pc), "C18 independent setters commute");
        core::mem::forget(pc);
    }

    check_clamps(difficulty_of(&pa), &[s1, s2]);

    kani::cover!(s1.which == 2 && s2.which == 0, "clock rate then mods");
    kani::cover!(!relevant(mode, s1.which), "irrelevant setter exercised");
    kani::cover!(s1.which == 3 && (s1.val > 20.0), "attribute above clamp");
    kani::cover!(true, "end reached");
    core::mem::forget((pa, pb));
}

#[kani::proof]
#[kani::unwind(6)]
pub fn c18_setters_osu() {
    any_perf_setters(0, || Performance::new(OsuDifficultyAttributes::default()));
}

#[kani::proof]
#[kani::unwind(6)]
pub fn c18_setters_taiko() {
    any_perf_setters(1, || Performance::new(TaikoDifficultyAttributes::default()));
}

#[kani::proof]
#[kani::unwind(6)]
pub fn c18_setters_catch() {
    any_perf_setters(2, || Performance::new(CatchDifficultyAttributes::default()));
}

#[kani::proof]
#[kani::unwind(6)]
pub fn c18_setters_mania() {
    any_perf_setters(3, || Performance::new(ManiaDifficultyAttributes::default()));
}

// ---- mode-specific builders: every difficulty-forwarding setter they expose -------------------

macro_rules! mode_builder_harness {
    ($name:ident, $m:ident, $perf:ident, $attrs:ident, [$($idx:literal => |$p:ident, $s:ident| $call:expr),* $(,)?]) => {
        #[kani::proof]
        #[kani::unwind(6)]
        pub fn $name() {
            let mk = || $perf::new($attrs::default());
            let s1 = any_setter();
            let s2 = any_setter();
            let has = |w: u8| -> bool { false $(|| w == $idx)* };
            kani::assume(has(s1.which) && has(s2.which));
            let ap = |p: $perf<'static>, s: &Setter| -> $perf<'static> {
                match s.which {
                    $($idx => { let $p = p; let $s = s; $call })*
                    _ => p,
                }
            };
            let pa = ap(ap(mk(), &s1), &s2);
            let d = apply_diff(apply_diff(Difficulty::new(), &s1), &s2);
            let pb = mk().difficulty(d.clone());
            assert!(pa.v_same_settings(&pb), "C18 mode builder setters == difficulty(Difficulty setters)");
            let stored = pa.v_difficulty().clone();
            assert!(stored == d, "C18 mode builder stores the same Difficulty");
            if s1.which != s2.which {
                let pc = ap(ap(mk(), &s2), &s1);
                assert!(pa.v_same_settings(&pc), "C18 mode builder setters commute");
                core::mem::forget(pc);
            }
            check_clamps(stored, &[s1, s2]);
            kani::cover!(s1.which == 2 && s1.rate > 100.0, "clock rate above clamp");
            kani::cover!(true, "end reached");
            core::mem::forget((pa, pb));
        }
    };
}

mode_builder_harness!(c18_builder_osu, osu, OsuPerformance, OsuDifficultyAttributes, [
    0 => |p, s| p.mods(s.bits),
    1 => |p, s| p.passed_objects(s.n),
    2 => |p, s| p.clock_rate(s.rate),
    3 => |p, s| p.ar(s.val, s.flag),
    4 => |p, s| p.cs(s.val, s.flag),
    5 => |p, s| p.hp(s.val, s.flag),
    6 => |p, s| p.od(s.val, s.flag),
    8 => |p, s| p.lazer(s.flag),
]);

mode_builder_harness!(c18_builder_taiko, taiko, TaikoPerformance, TaikoDifficultyAttributes, [
    0 => |p, s| p.mods(s.bits),
    1 => |p, s| p.passed_objects(s.n),
    2 => |p, s| p.clock_rate(s.rate),
    5 => |p, s| p.hp(s.val, s.flag),
    6 => |p, s| p.od(s.val, s.flag),
]);

mode_builder_harness!(c18_builder_catch, catch, CatchPerformance, CatchDifficultyAttributes, [
    0 => |p, s| p.mods(s.bits),
    1 => |p, s| p.passed_objects(s.n),
    2 => |p, s| p.clock_rate(s.rate),
    3 => |p, s| p.ar(s.val, s.flag),
    4 => |p, s| p.cs(s.val, s.flag),
    5 => |p, s| p.hp(s.val, s.flag),
    6 => |p, s| p.od(s.val, s.flag),
    7 => |p, s| p.hardrock_offsets(s.flag),
]);

mode_builder_harness!(c18_builder_mania, mania, ManiaPerformance, ManiaDifficultyAttributes, [
    0 => |p, s| p.mods(s.bits),
    1 => |p, s| p.passed_objects(s.n),
    2 => |p, s| p.clock_rate(s.rate),
    5 => |p, s| p.hp(s.val, s.flag),
    6 => |p, s| p.od(s.val, s.flag),
    8 => |p, s| p.lazer(s.flag),
]);

// ---- inspect round trip ------------------------------------------------------------------------

fn any_opt_md() -> Option<ModsDependent> {
    if kani::any() {
        let v: f32 = kani::any();
        kani::assume(!v.is_nan());
        Some(ModsDependent {
            value: v,
            with_mods: kani::any(),
        })
    } else {
        None
    }
}

#[kani::proof]
#[kani::unwind(6)]
pub fn c18_inspect_roundtrip() {
    // every combination of set/unset fields, values fully symbolic (non-NaN attributes)
    let mut d = Difficulty::new().mods(kani::any::<u32>());
    if kani::any() {
        d = d.passed_objects(kani::any());
    }
    let rate_set: bool = kani::any();
    let rate: f64 = kani::any();
    if rate_set {
        d = d.clock_rate(rate);
    }
    let (ar, cs, hp, od) = (any_opt_md(), any_opt_md(), any_opt_md(), any_opt_md());
    if let Some(m) = ar {
        d = d.ar(m.value, m.with_mods);
    }
    if let Some(m) = cs {
        d = d.cs(m.value, m.with_mods);
    }
    if let Some(m) = hp {
        d = d.hp(m.value, m.with_mods);
    }
    if let Some(m) = od {
        d = d.od(m.value, m.with_mods);
    }
    if kani::any() {
        d = d.hardrock_offsets(kani::any());
    }
    if kani::any() {
        d = d.lazer(kani::any());
    }

    let back = d.clone().inspect().into_difficulty();
    assert!(back == d, "C18 Difficulty -> inspect -> into_difficulty is the identity");

    // inspect shows what was set (after the documented clamps)
    let i = d.clone().inspect();
    assert!(i.clock_rate.is_some() == rate_set);
    if rate_set && !rate.is_nan() {
        assert!(i.clock_rate == Some(rate.clamp(0.01, 100.0)), "C18 inspect shows clamped rate");
    }
    assert!(i.ar.is_some() == ar.is_some() && i.od.is_some() == od.is_some());
    for (shown, given) in [(i.ar, ar), (i.cs, cs), (i.hp, hp), (i.od, od)] {
        assert!(shown.is_some() == given.is_some(), "C18 inspect shows exactly the attributes that were set");
        if let (Some(a), Some(b)) = (shown, given) {
            assert!(a.value == b.value.clamp(-20.0, 20.0) && a.with_mods == b.with_mods, "C18 inspect shows the clamped attribute and its flag");
        }
    }

    // an arbitrary InspectDifficulty (public fields, any values) converts to a Difficulty whose
    // stored values are clamped
    let raw = InspectDifficulty {
        mods: crate::GameMods::from(kani::any::<u32>()),
        passed_objects: if kani::any() { Some(kani::any()) } else { None },
        clock_rate: if kani::any() { Some(crate::verif_harness::common::any_f64_non_nan()) } else { None },
        ar: any_opt_md(),
        cs: any_opt_md(),
        hp: any_opt_md(),
        od: any_opt_md(),
        hardrock_offsets: if kani::any() { Some(kani::any()) } else { None },
        lazer: if kani::any() { Some(kani::any()) } else { None },
    };
    let conv = raw.clone().into_difficulty();
    check_clamps(conv.clone(), &[]);
    let shown = conv.inspect();
    for (a, b) in [(shown.ar, raw.ar), (shown.cs, raw.cs), (shown.hp, raw.hp), (shown.od, raw.od)] {
        assert!(a.is_some() == b.is_some(), "C18 into_difficulty keeps which attributes are set");
        if let (Some(a), Some(b)) = (a, b) {
            assert!(a.value == b.value.clamp(-20.0, 20.0) && a.with_mods == b.with_mods, "C18 into_difficulty stores the clamped attribute and its flag");
        }
    }
    if let Some(r) = raw.clock_rate {
        assert!(shown.clock_rate == Some(r.clamp(0.01, 100.0)), "C18 into_difficulty stores the clamped clock rate");
    }
    assert!(shown.passed_objects == raw.passed_objects && shown.lazer == raw.lazer);
    assert!(shown.hardrock_offsets == raw.hardrock_offsets && shown.mods == raw.mods);

    kani::cover!(rate_set && rate < 0.01, "rate below clamp");
    kani::cover!(true, "end reached");
}

verif_replay_table!(verif_replay_c18;
    c18_setters_osu, c18_setters_taiko, c18_setters_catch, c18_setters_mania,
    c18_builder_osu, c18_builder_taiko, c18_builder_catch, c18_builder_mania,
    c18_inspect_roundtrip,
);

