// harness site: src/mania/performance/mod.rs  (crate::mania::performance::verif_harness)
#![allow(dead_code, unused_imports, clippy::all, clippy::pedantic)]

use super::*;
use crate::verif_harness::common::VerifPerf;

/// Read access to the builder's private fields for harnesses in other modules (trait impls are
/// visible crate-wide even though this module's path is private). The destructuring is
/// exhaustive on purpose: a builder that grows a field stops compiling here instead of silently
/// escaping the comparison.
impl VerifPerf for ManiaPerformance<'_> {
    type Attrs = crate::mania::ManiaDifficultyAttributes;

    fn v_difficulty(&self) -> &crate::Difficulty {
        &self.difficulty
    }

    fn v_same_settings(&self, other: &Self) -> bool {
        let Self { map_or_attrs: _, difficulty: a_d, n320: a_n320, n300: a_n300, n200: a_n200, n100: a_n100, n50: a_n50, misses: a_misses, acc: a_acc, hitresult_priority: a_hitresult_priority, } = self;
        let Self { map_or_attrs: _, difficulty: b_d, n320: b_n320, n300: b_n300, n200: b_n200, n100: b_n100, n50: b_n50, misses: b_misses, acc: b_acc, hitresult_priority: b_hitresult_priority, } = other;
        a_d == b_d && a_n320 == b_n320 && a_n300 == b_n300 && a_n200 == b_n200 && a_n100 == b_n100 && a_n50 == b_n50 && a_misses == b_misses && a_acc == b_acc && a_hitresult_priority == b_hitresult_priority
    }

    fn v_map(&self) -> Option<&crate::Beatmap> {
        match self.map_or_attrs {
            MapOrAttrs::Map(ref m) => Some(m.as_ref()),
            MapOrAttrs::Attrs(_) => None,
        }
    }

    fn v_map_is_borrowed(&self) -> bool {
        matches!(self.map_or_attrs, MapOrAttrs::Map(std::borrow::Cow::Borrowed(_)))
    }

    fn v_attrs(&self) -> Option<&Self::Attrs> {
        match self.map_or_attrs {
            MapOrAttrs::Attrs(ref a) => Some(a),
            MapOrAttrs::Map(_) => None,
        }
    }
}
