// harness site: src/catch/performance/gradual.rs — C03 (builder hand-over), C15 (gradual performance
// nth/last protocol); literal around an S1 difficulty state (harness/catch_gradual.rs), with
// `CatchPerformance::calculate` replaced by a recording stub.
#![allow(dead_code, unused_imports, clippy::all, clippy::pedantic)]

use super::*;
use crate::catch::difficulty::gradual::verif_harness as s1;
use crate::catch::{CatchDifficultyAttributes, CatchPerformance};
use crate::verif_harness::common::{ghost_probe, verif_replay_table, VerifPerf};

struct Recorded {
    difficulty: Difficulty,
    fields: [Option<u32>; 6],
    acc_set: bool,
    attrs: Option<CatchDifficultyAttributes>,
}

static mut REC: Option<Recorded> = None;
static mut REC_CALLS: usize = 0;

pub(crate) fn rec_calculate<'map>(p: CatchPerformance<'map>) -> Result<CatchPerformanceAttributes, ConvertError>
where
    'map: 'map,
{
    unsafe {
        REC_CALLS += 1;
        REC = Some(Recorded {
            difficulty: p.difficulty.clone(),
            fields: [p.combo, p.fruits, p.droplets, p.tiny_droplets, p.tiny_droplet_misses, p.misses],
            acc_set: p.acc.is_some(),
            attrs: p.v_attrs().cloned(),
        });
    }
    core::mem::forget(p);
    Ok(CatchPerformanceAttributes::default())
}

pub(crate) fn pgradual_step<const N: usize, const M: usize>() {
    let w = s1::any_witness::<N>();
    let m = s1::model_of(&w);
    let state = CatchScoreState {
        max_combo: kani::any(),
        fruits: kani::any(),
        droplets: kani::any(),
        tiny_droplets: kani::any(),
        tiny_droplet_misses: kani::any(),
        misses: kani::any(),
    };
    let mut d = Difficulty::new().mods(kani::any::<u32>());
    if kani::any() {
        d = d.lazer(kani::any());
    }
    if kani::any() {
        d = d.hardrock_offsets(kani::any());
    }
    let p = w.p;
    let remaining = N - p;
    let n = if w.call == 0 { 0 } else if w.call == 2 { usize::MAX } else { w.n };

    if ghost_probe() {
        let mut inner = s1::literal_state::<N, M>(&w, &m);
        inner.difficulty = d.clone();
        let mut gp = CatchGradualPerformance { difficulty: inner };
        assert!(gp.len() == remaining, "C15 catch gradual performance: len() is the number of objects left");
        let res = match w.call {
            0 => gp.next(state.clone()),
            2 => gp.last(state.clone()),
            _ => gp.nth(state.clone(), n),
        };
        assert!(res.is_some() == (remaining > 0), "C15 catch gradual performance: None exactly when nothing remains");
        if remaining > 0 {
            let k = core::cmp::min(p.saturating_add(n).saturating_add(1), N);
            assert!(gp.difficulty.idx == k, "C15 catch gradual performance: processes min(n + 1, remaining) objects");
            let rec = unsafe { REC.as_ref() };
            assert!(unsafe { REC_CALLS } == 1 && rec.is_some(), "C03 catch: exactly one one-shot calculation per step");
            let rec = rec.unwrap();
            assert!(rec.difficulty == d.clone().passed_objects(k as u32), "C03 catch: the one-shot builder gets the gradual settings with passed_objects(idx)");
            let s = &state;
            assert!(
                rec.fields == [Some(s.max_combo), Some(s.fruits), Some(s.droplets), Some(s.tiny_droplets), Some(s.tiny_droplet_misses), Some(s.misses)],
                "C03 catch: the one-shot builder gets exactly the given score state"
            );
            assert!(!rec.acc_set, "C03 catch: no accuracy leaks into the one-shot builder");
            let a = rec.attrs.as_ref();
            assert!(a.is_some(), "C03 catch: the one-shot builder is attribute-backed");
            let a = a.unwrap();
            assert!(
                a.n_fruits == m.fruits[k] && a.n_droplets == m.droplets[k] && a.n_tiny_droplets == m.tiny[k],
                "C03 catch: the one-shot builder holds the attributes of exactly the processed prefix"
            );
        } else {
            assert!(unsafe { REC_CALLS } == 0, "C03 catch: nothing is calculated when nothing remains");
        }
        kani::cover!(N < 2 || (w.call == 2 && remaining > 1), "last() with several objects left");
        kani::cover!(N < 2 || (w.call == 1 && n > 0 && n < remaining), "nth inside the map");
        kani::cover!(remaining == 0, "nothing remains");
        core::mem::forget(gp);
    } else if s1::representable_as_map(&w) {
        let map = s1::map_of::<N>();
        let mut gp = CatchGradualPerformance::new(d.clone(), &map).unwrap();
        for _ in 0..p {
            let _ = gp.next(state.clone());
        }
        let res = match w.call {
            0 => gp.next(state.clone()),
            2 => gp.last(state.clone()),
            _ => gp.nth(state.clone(), n),
        };
        assert!(res.is_some() == (remaining > 0), "C15 catch gradual performance: None exactly when nothing remains");
        if let Some(res) = res {
            let k = core::cmp::min(p.saturating_add(n).saturating_add(1), N);
            let one = CatchPerformance::new(&map).difficulty(d.clone()).passed_objects(k as u32).state(state.clone()).calculate().unwrap();
            assert!(one.pp == res.pp && one.difficulty.n_fruits == res.difficulty.n_fruits, "C03 catch: gradual performance equals one-shot performance on the prefix");
        }
    }
}
