// harness site: src/catch/performance/gradual.rs
#![allow(dead_code, unused_imports, clippy::all, clippy::pedantic)]
