// harness site: src/catch/difficulty/gradual.rs — S1 (state-level inductive step), DESIGN.md §4a.
//
// Properties: C15 (iterator protocol), C02 (gradual == one-shot on the prefix: object counts and
// processed difficulty objects), C14 (fruit/droplet/tiny-droplet counts), C05.
//
// Witness: N palpable objects (fruit / droplet, tiny droplets recorded in front of each), cursor
// p, one call. Under Kani the struct is a literal in cursor state p (attrs = sum of the first p
// count deltas) with `Movement::process` replaced by a recording stub. Natively the witness is
// replayed through the public API when it is expressible as a map (fruits only: circles), and
// otherwise on the same literal with the real skill.
#![allow(dead_code, unused_imports, clippy::all, clippy::pedantic)]

use super::*;
use crate::catch::{object::palpable::PalpableObject, Catch};
use crate::model::hit_object::{HitObject, HitObjectKind};
use crate::verif_harness::common::{ghost_probe, verif_replay_table};
use rosu_map::util::Pos;

static mut LOG: [usize; 8] = [0; 8];
static mut LOG_LEN: usize = 0;

pub(crate) fn rec_process(_s: &mut Movement, curr: &CatchDifficultyObject, _o: &[CatchDifficultyObject]) {
    unsafe {
        if LOG_LEN < 8 {
            LOG[LOG_LEN] = curr.idx;
        }
        LOG_LEN += 1;
    }
}
pub(crate) fn zero_value(_s: &Movement) -> f64 {
    0.0
}
fn log_len() -> usize {
    unsafe { LOG_LEN }
}
fn log_at(i: usize) -> usize {
    unsafe { LOG[i] }
}

pub(crate) fn new_gradual_small() -> ObjectCountBuilder {
    // capacity-only stub (8 instead of 512 entries), see catch_attrs.rs
    let mut b = ObjectCountBuilder::new_regular(0);
    b = ObjectCountBuilder::Gradual {
        count: GradualObjectCount::default(),
        all: Vec::with_capacity(8),
    };
    b
}

#[derive(Clone, Copy)]
pub(crate) struct Witness<const N: usize> {
    pub(crate) is_fruit: [bool; N],
    pub(crate) tiny: [u8; N],
    pub(crate) p: usize,
    pub(crate) call: u8,
    pub(crate) n: usize,
}

pub(crate) fn any_witness<const N: usize>() -> Witness<N> {
    let w = Witness::<N> {
        is_fruit: kani::any(),
        tiny: kani::any(),
        p: kani::any(),
        call: kani::any(),
        n: kani::any(),
    };
    for i in 0..N {
        kani::assume(w.tiny[i] <= 3);
    }
    kani::assume(w.p <= N && w.call < 3);
    w
}

pub(crate) struct Model {
    pub(crate) fruits: [u32; 5],
    pub(crate) droplets: [u32; 5],
    pub(crate) tiny: [u32; 5],
}

pub(crate) fn model_of<const N: usize>(w: &Witness<N>) -> Model {
    let mut m = Model { fruits: [0; 5], droplets: [0; 5], tiny: [0; 5] };
    for i in 0..N {
        m.fruits[i + 1] = m.fruits[i] + u32::from(w.is_fruit[i]);
        m.droplets[i + 1] = m.droplets[i] + u32::from(!w.is_fruit[i]);
        m.tiny[i + 1] = m.tiny[i] + u32::from(w.tiny[i]);
    }
    m
}

pub(crate) fn representable_as_map<const N: usize>(w: &Witness<N>) -> bool {
    let mut ok = true;
    for i in 0..N {
        ok &= w.is_fruit[i] && w.tiny[i] == 0;
    }
    ok
}

pub(crate) fn map_of<const N: usize>() -> Beatmap {
    let mut map = Beatmap { mode: GameMode::Catch, ..Beatmap::default() };
    for i in 0..N {
        map.hit_objects.push(HitObject {
            pos: Pos::new(100.0 + 50.0 * (i as f32), 0.0),
            start_time: 500.0 * (i as f64),
            kind: HitObjectKind::Circle,
        });
        map.hit_sounds.push(Default::default());
    }
    map
}

const SKIP_NTH_BEYOND: u8 = 1;

fn check_step<const N: usize>(g: &mut CatchGradualDifficulty, w: &Witness<N>, m: &Model, map: Option<&Beatmap>, skip: u8) {
    let p = w.p;
    let remaining = N - p;
    let ghost = ghost_probe();
    let log0 = log_len();

    assert!(g.len() == remaining, "C15,C02 catch: len() equals the number of values still to come");
    let (lo, hi) = g.size_hint();
    assert!(lo == g.len() && hi == Some(lo), "C15 catch: size_hint() agrees with len()");
    if w.call == 2 {
        return;
    }
    let n = if w.call == 0 { 0 } else { w.n };
    let res = if w.call == 0 { g.next() } else { g.nth(n) };

    if n < remaining {
        let k = p + n + 1;
        assert!(res.is_some(), "C15,C02 catch: a value is produced while enough values remain");
        let a = res.unwrap();
        assert!(a.n_fruits == m.fruits[k], "C02,C15 catch: n_fruits counts the fruits of the prefix");
        assert!(a.n_droplets == m.droplets[k], "C02,C15 catch: n_droplets counts the droplets of the prefix");
        assert!(a.n_tiny_droplets == m.tiny[k], "C02,C15 catch: n_tiny_droplets counts the tiny droplets of the prefix");
        assert!((a.n_fruits + a.n_droplets) as usize == k, "C14 catch: fruits + droplets == objects passed");
        assert!(g.idx == k, "C15 catch: cursor advanced by n + 1");
        assert!(g.len() == N - k, "C15 catch: len() after the call");
        if ghost {
            let first = if p == 0 { 0 } else { p - 1 };
            let expect = (k - 1) - first;
            assert!(log_len() - log0 == expect, "C02,C15 catch: number of processed difficulty objects");
            let mut j = 0;
            while j < expect {
                assert!(log_at(log0 + j) == first + j, "C02,C15 catch: processed objects in order");
                j += 1;
            }
        } else if let Some(map) = map {
            let one = Difficulty::new().passed_objects(k as u32).calculate_for_mode::<Catch>(map).unwrap();
            assert!(one == a, "C02,C15 catch: value equals one-shot passed_objects(i)");
        }
    } else {
        if !(skip & SKIP_NTH_BEYOND != 0 && remaining > 0) {
            assert!(res.is_none(), "C15 catch: nth(n) with fewer than n+1 values left returns None");
        }
        assert!(g.next().is_none(), "C15 catch: exhausted calculator stays exhausted");
        assert!(g.len() == 0, "C15 catch: len() is 0 once exhausted");
    }
}

pub(crate) fn literal_state<const N: usize, const M: usize>(w: &Witness<N>, m: &Model) -> CatchGradualDifficulty {
    let mut b = ObjectCountBuilder::new_gradual();
    for i in 0..N {
        b.record_tiny_droplets(u32::from(w.tiny[i]));
        if w.is_fruit[i] {
            b.record_fruit();
        } else {
            b.record_droplet();
        }
    }
    let count = b.into_gradual();
    let mut diff = Vec::with_capacity(M);
    for i in 0..M {
        let last = PalpableObject::new(100.0 + 50.0 * (i as f32), 0.0, 500.0 * (i as f64));
        let curr = PalpableObject::new(100.0 + 50.0 * ((i + 1) as f32), 0.0, 500.0 * ((i + 1) as f64));
        diff.push(CatchDifficultyObject::new(&curr, &last, 1.0, 1.0, i));
    }
    let attrs = CatchDifficultyAttributes {
        n_fruits: m.fruits[w.p],
        n_droplets: m.droplets[w.p],
        n_tiny_droplets: m.tiny[w.p],
        ..Default::default()
    };
    CatchGradualDifficulty {
        idx: w.p,
        difficulty: Difficulty::new(),
        attrs,
        count,
        diff_objects: diff.into_boxed_slice(),
        movement: Movement::new(50.0, 1.0),
    }
}

fn restrict_to_class<const N: usize>(w: &Witness<N>, class: u8) {
    if class == 1 {
        kani::assume(w.call == 1 && w.p < N && w.n >= N - w.p);
    }
    if class == 4 {
        // nth(n >= 1) strictly inside the map from a non-zero cursor (the cheap slice of N = 3
        // that the quick tier runs)
        kani::assume(w.call == 1 && w.p >= 1 && w.n >= 1 && w.n < N - w.p);
    }
}

fn s1_step<const N: usize, const M: usize>(skip: u8, class: u8) {
    let w = any_witness::<N>();
    restrict_to_class(&w, class);
    let m = model_of(&w);

    if ghost_probe() || !representable_as_map(&w) {
        let mut g = literal_state::<N, M>(&w, &m);
        check_step(&mut g, &w, &m, None, skip);
        let kc = class != 0;
        kani::cover!(kc || N < 2 || (w.call == 1 && w.n > 0 && w.n < N - w.p), "nth(n>0) inside the map");
        kani::cover!(kc || (w.call == 1 && w.n >= N - w.p), "nth beyond the end");
        kani::cover!(kc || N == 0 || (w.call == 0 && w.p < N && !w.is_fruit[w.p] && w.tiny[w.p] > 0), "next onto a droplet with tiny droplets");
        core::mem::forget(g);
    } else {
        let map = map_of::<N>();
        let mut g = CatchGradualDifficulty::new(Difficulty::new(), &map).unwrap();
        for _ in 0..w.p {
            let _ = g.next();
        }
        check_step(&mut g, &w, &m, Some(&map), skip);
    }
}

macro_rules! s1_proof {
    ($name:ident, $n:literal, $m:literal, $unwind:literal) => {
        s1_proof!($name, $n, $m, $unwind, SKIP_NTH_BEYOND, 0);
    };
    ($name:ident, $n:literal, $m:literal, $unwind:literal, $skip:expr, $class:literal) => {
        #[kani::proof]
        #[kani::unwind($unwind)]
        #[kani::stub(<Movement as StrainSkill>::process, rec_process)]
        #[kani::stub(<Movement as StrainSkill>::cloned_difficulty_value, zero_value)]
        #[kani::stub(crate::catch::attributes::ObjectCountBuilder::new_gradual, new_gradual_small)]
        #[kani::stub(crate::verif_harness::common::ghost_probe, crate::verif_harness::common::ghost_probe_on)]
        pub fn $name() {
            s1_step::<$n, $m>($skip, $class);
        }
    };
}

s1_proof!(s1_catch_step_n0, 0, 0, 6);
s1_proof!(s1_catch_step_n1, 1, 0, 6);
s1_proof!(s1_catch_step_n2, 2, 1, 6);
s1_proof!(s1_catch_step_n3, 3, 2, 7);
s1_proof!(s1_catch_step_n4, 4, 3, 8);
s1_proof!(kf_catch_nth_beyond_end, 2, 1, 6, 0, 1);
s1_proof!(s1_catch_nth_inside_n3, 3, 2, 7, SKIP_NTH_BEYOND, 4);

macro_rules! c03_proof {
    ($name:ident, $n:literal, $m:literal, $unwind:literal) => {
        #[kani::proof]
        #[kani::unwind($unwind)]
        #[kani::stub(<Movement as StrainSkill>::process, rec_process)]
        #[kani::stub(<Movement as StrainSkill>::cloned_difficulty_value, zero_value)]
        #[kani::stub(crate::catch::attributes::ObjectCountBuilder::new_gradual, new_gradual_small)]
        #[kani::stub(crate::catch::CatchPerformance::calculate, crate::catch::performance::gradual::verif_harness::rec_calculate)]
        #[kani::stub(crate::verif_harness::common::ghost_probe, crate::verif_harness::common::ghost_probe_on)]
        pub fn $name() {
            crate::catch::performance::gradual::verif_harness::pgradual_step::<$n, $m>();
        }
    };
}
c03_proof!(c03_catch_pgradual_n0, 0, 0, 10);
c03_proof!(c03_catch_pgradual_n1, 1, 0, 10);
c03_proof!(c03_catch_pgradual_n2, 2, 1, 10);
c03_proof!(c03_catch_pgradual_n3, 3, 2, 10);

verif_replay_table!(verif_replay_catch_gradual;
    c03_catch_pgradual_n0, c03_catch_pgradual_n1, c03_catch_pgradual_n2, c03_catch_pgradual_n3,
    s1_catch_nth_inside_n3,
    kf_catch_nth_beyond_end,
    s1_catch_step_n0, s1_catch_step_n1, s1_catch_step_n2, s1_catch_step_n3, s1_catch_step_n4,
);
