// harness site: src/catch/difficulty/gradual.rs
#![allow(dead_code, unused_imports, clippy::all, clippy::pedantic)]
