// harness site: src/mania/convert/pattern.rs  (C19: column <-> position inverse pair, ContainedColumns)
#![allow(dead_code, unused_imports, clippy::all, clippy::pedantic)]

use super::*;
use crate::verif_harness::common::verif_replay_table;
use crate::mania::object::ManiaObject;

/// column(column_to_pos(c, K), K) == c for every key count K and column c < K.
fn column_inverse<const KMAX: i32>() {
    let k: i32 = kani::any();
    kani::assume(k >= 1 && k <= KMAX);
    let c: u8 = kani::any();
    kani::assume(i32::from(c) < k);
    let pos = column_to_pos(c, k);
    assert!(pos >= 0.0 && pos <= 512.0, "C19 column position lies on the playfield");
    let back = ManiaObject::column(pos, k as f32);
    assert!(back == usize::from(c), "C19 column(column_to_pos(c, K), K) == c");
    kani::cover!(k == KMAX && i32::from(c) == k - 1, "last column of the largest key count");
    kani::cover!(k == 7 && c == 3, "7K middle column");
}

#[kani::proof]
#[kani::unwind(2)]
pub fn c19_column_inverse_10k() {
    column_inverse::<10>();
}

#[kani::proof]
#[kani::unwind(2)]
pub fn c19_column_inverse_18k() {
    column_inverse::<18>();
}

/// ManiaObject::column(x, K) < K for *every* f32 x (NaN, infinities, negatives included).
#[kani::proof]
#[kani::unwind(2)]
pub fn c19_column_below_keys_any_x() {
    let k: u8 = kani::any();
    kani::assume(k >= 1 && k <= 18);
    let x: f32 = kani::any();
    let col = ManiaObject::column(x, f32::from(k));
    assert!(col < usize::from(k), "C19 every note lands in a column below the key count");
    kani::cover!(x.is_nan(), "NaN position");
    kani::cover!(x > 512.0 && col == usize::from(k) - 1, "beyond the right edge clamps to the last column");
    kani::cover!(x < 0.0, "negative position");
}

/// The bit set used to track occupied columns never shifts out of range for columns < 16 and
/// reports exactly what was inserted.
#[kani::proof]
#[kani::unwind(2)]
pub fn c19_contained_columns() {
    let a: u8 = kani::any();
    let b: u8 = kani::any();
    let q: u8 = kani::any();
    kani::assume(a < 16 && b < 16 && q < 16);
    let mut cc = ContainedColumns::default();
    assert!(cc.len() == 0 && !cc.contains(q));
    cc.insert(a);
    cc.insert(b);
    assert!(cc.contains(a) && cc.contains(b), "C19 inserted columns are contained");
    assert!(cc.contains(q) == (q == a || q == b), "C19 only inserted columns are contained");
    assert!(cc.len() == if a == b { 1 } else { 2 }, "C19 column count");
    let mut other = ContainedColumns::default();
    other.insert(q);
    cc.append(&mut other);
    assert!(cc.contains(q) && other.len() == 0, "C19 append moves the columns");
    kani::cover!(a == 15 && b == 0, "extreme columns");
}

verif_replay_table!(verif_replay_mania_pattern;
    c19_column_inverse_10k, c19_column_inverse_18k, c19_column_below_keys_any_x, c19_contained_columns,
);
