// C07 — mode dispatch and map conversion are mutually consistent.
//
// Encoded (real code): Beatmap::{convert, convert_ref, convert_mut}, Taiko/Catch/Mania::convert on
// object-free maps, OsuPerformance::{try_mode, mode_or_ignore, try_convert_map},
// Performance::{try_mode, mode_or_ignore}, TryFrom<OsuPerformance> for the three other builders.

use std::borrow::Cow;

use rosu_map::section::general::GameMode;

use crate::{
    any::{Difficulty, HitResultPriority, Performance},
    catch::CatchPerformance,
    mania::ManiaPerformance,
    model::mode::ConvertError,
    osu::{OsuDifficultyAttributes, OsuPerformance},
    taiko::TaikoPerformance,
    verif_harness::common::{any_mode, any_opt_u32_le, VerifPerf},
    Beatmap, GameMods,
};

fn err_kind(e: &ConvertError) -> (u8, Option<GameMode>, Option<GameMode>) {
    match e {
        ConvertError::AlreadyConverted => (0, None, None),
        ConvertError::Convert { from, to } => (1, Some(*from), Some(*to)),
    }
}

/// Object-free map with symbolic mode / convert flag and difficulty values from a small grid
/// (the mania converter derives its RNG seed and key count from them).
fn any_empty_map() -> Beatmap {
    let k: u8 = kani::any();
    kani::assume(k <= 20);
    let v = f32::from(k) / 2.0;
    Beatmap {
        mode: any_mode(),
        is_convert: kani::any(),
        cs: v,
        od: if kani::any() { v } else { 10.0 - v },
        ..Beatmap::default()
    }
}

fn convert_tree_empty<const TARGETS: u8>() {
    let map = any_empty_map();
    let target = any_mode();
    // TARGETS is a bit set of target modes handled by this instance (keeps each query small)
    kani::assume(TARGETS & (1 << (target as u8)) != 0);
    let mods = GameMods::from(kani::any::<u32>());

    let by_val = map.clone().convert(target, &mods);
    let by_ref = map.convert_ref(target, &mods);
    let mut in_place = map.clone();
    let by_mut = in_place.convert_mut(target, &mods);

    let should_convert = map.mode != target;
    let ok_expected = map.mode == target || (!map.is_convert && map.mode == GameMode::Osu);

    assert!(by_val.is_ok() == ok_expected, "C07 convert: Ok exactly for own mode or un-converted osu! maps");
    assert!(by_ref.is_ok() == ok_expected, "C07 convert_ref: Ok exactly for own mode or un-converted osu! maps");
    assert!(by_mut.is_ok() == ok_expected, "C07 convert_mut: Ok exactly for own mode or un-converted osu! maps");

    match (&by_val, &by_ref, &by_mut) {
        (Ok(a), Ok(b), Ok(())) => {
            assert!(a.mode == target && b.mode == target && in_place.mode == target, "C07 result has the target mode");
            assert!(*a == **b && *a == in_place, "C07 the three entry points produce equal maps");
            if should_convert {
                assert!(a.is_convert, "C07 a converted map is marked as convert");
                assert!(matches!(b, Cow::Owned(_)), "C07 convert_ref returns an owned map when converting");
            } else {
                assert!(*a == map, "C07 converting to the own mode is the identity");
                assert!(matches!(b, Cow::Borrowed(_)), "C07 convert_ref borrows when nothing is to do");
                assert!(a.is_convert == map.is_convert, "C07 own-mode conversion leaves the convert flag");
            }
            if target == GameMode::Mania && should_convert {
                assert!(a.cs >= 1.0 && a.cs <= 9.0, "C07 mania convert sets a key count");
            }
        }
        (Err(a), Err(b), Err(c)) => {
            assert!(err_kind(a) == err_kind(b) && err_kind(a) == err_kind(c), "C07 the three entry points report equal errors");
            assert!(in_place == map, "C07 a failed in-place conversion leaves the map untouched");
            if map.is_convert {
                assert!(err_kind(a).0 == 0, "C07 converted maps report AlreadyConverted");
            } else {
                assert!(err_kind(a) == (1, Some(map.mode), Some(target)), "C07 Convert error names both modes");
            }
        }
        _ => assert!(false, "C07 the three entry points agree on Ok/Err"),
    }

    kani::cover!(by_val.is_ok() && should_convert, "a conversion ran");
    kani::cover!(by_val.is_ok() && !should_convert, "own-mode conversion");
    kani::cover!(by_val.is_err() && map.is_convert, "already converted");
    kani::cover!(by_val.is_err() && !map.is_convert, "wrong source mode");
    core::mem::forget((by_val, by_ref, in_place));
    core::mem::forget(map);
}

#[kani::proof]
#[kani::unwind(3)]
pub fn c07_convert_tree_osu_taiko_catch() {
    convert_tree_empty::<0b0111>();
}

#[kani::proof]
#[kani::unwind(3)]
pub fn c07_convert_tree_mania() {
    convert_tree_empty::<0b1000>();
}

// ---- builders: try_mode / mode_or_ignore / TryFrom ---------------------------------------------
//
// The builder-level harnesses replace the three converters by flag-setting stubs (abstraction:
// the dispatch logic must hold `convert(map)` whatever the converter does; the real converters
// are exercised by c07_convert_tree_empty). Natively (replay) the real converters run.

/// The fields a conversion can touch on an object-free map (full `Beatmap: PartialEq` walks seven
/// vectors whose lengths are no longer constant once the map sits behind a `Cow` on the heap).
fn sig(m: &Beatmap) -> (GameMode, bool, u32, u32, u32, u32, usize, usize) {
    (m.mode, m.is_convert, m.cs.to_bits(), m.od.to_bits(), m.ar.to_bits(), m.hp.to_bits(),
     m.hit_objects.len(), m.hit_sounds.len())
}

fn same_map(a: Option<&Beatmap>, b: &Beatmap) -> bool {
    a.map_or(false, |a| sig(a) == sig(b))
}

fn stub_taiko_convert(map: &mut Beatmap) {
    map.mode = GameMode::Taiko;
    map.is_convert = true;
}
fn stub_catch_convert(map: &mut Beatmap) {
    map.mode = GameMode::Catch;
    map.is_convert = true;
}
fn stub_mania_convert(map: &mut Beatmap, mods: &GameMods) {
    map.cs = mods.mania_keys().unwrap_or(7.0);
    map.mode = GameMode::Mania;
    map.is_convert = true;
}

#[derive(Clone, Copy)]
struct OsuSet {
    acc: Option<u8>,
    combo: Option<u32>,
    n300: Option<u32>,
    n100: Option<u32>,
    n50: Option<u32>,
    misses: Option<u32>,
    best: bool,
    mods: u32,
    passed: Option<u32>,
}

fn any_osu_set() -> OsuSet {
    let acc = if kani::any() {
        let a: u8 = kani::any();
        kani::assume(a <= 100);
        Some(a)
    } else {
        None
    };
    OsuSet {
        acc,
        combo: any_opt_u32_le(u32::MAX),
        n300: any_opt_u32_le(u32::MAX),
        n100: any_opt_u32_le(u32::MAX),
        n50: any_opt_u32_le(u32::MAX),
        misses: any_opt_u32_le(u32::MAX),
        best: kani::any(),
        mods: kani::any(),
        passed: any_opt_u32_le(u32::MAX),
    }
}

fn prio(best: bool) -> HitResultPriority {
    if best {
        HitResultPriority::BestCase
    } else {
        HitResultPriority::WorstCase
    }
}

fn mk_difficulty(s: &OsuSet) -> Difficulty {
    let mut d = Difficulty::new().mods(s.mods);
    if let Some(p) = s.passed {
        d = d.passed_objects(p);
    }
    d
}

fn apply_osu<'m>(mut p: OsuPerformance<'m>, s: &OsuSet) -> OsuPerformance<'m> {
    p = p.difficulty(mk_difficulty(s)).hitresult_priority(prio(s.best));
    if let Some(a) = s.acc {
        p = p.accuracy(f64::from(a));
    }
    if let Some(v) = s.combo {
        p = p.combo(v);
    }
    if let Some(v) = s.n300 {
        p = p.n300(v);
    }
    if let Some(v) = s.n100 {
        p = p.n100(v);
    }
    if let Some(v) = s.n50 {
        p = p.n50(v);
    }
    if let Some(v) = s.misses {
        p = p.misses(v);
    }
    // osu!-only parts must not leak into other modes
    p.large_tick_hits(3).small_tick_hits(2).slider_end_hits(1)
}

/// The documented field mapping, written with the target builders' public setters.
fn expect_taiko<'m>(map: &'m Beatmap, s: &OsuSet) -> TaikoPerformance<'m> {
    let mut p = TaikoPerformance::new(map).difficulty(mk_difficulty(s)).hitresult_priority(prio(s.best));
    if let Some(a) = s.acc {
        p = p.accuracy(f64::from(a));
    }
    if let Some(v) = s.combo {
        p = p.combo(v);
    }
    if let Some(v) = s.n300 {
        p = p.n300(v);
    }
    if let Some(v) = s.n100 {
        p = p.n100(v);
    }
    if let Some(v) = s.misses {
        p = p.misses(v);
    }
    p
}

fn expect_catch<'m>(map: &'m Beatmap, s: &OsuSet) -> CatchPerformance<'m> {
    let mut p = CatchPerformance::new(map).difficulty(mk_difficulty(s));
    if let Some(a) = s.acc {
        p = p.accuracy(f64::from(a));
    }
    if let Some(v) = s.combo {
        p = p.combo(v);
    }
    if let Some(v) = s.n300 {
        p = p.fruits(v);
    }
    if let Some(v) = s.n100 {
        p = p.droplets(v);
    }
    if let Some(v) = s.n50 {
        p = p.tiny_droplets(v);
    }
    if let Some(v) = s.misses {
        p = p.misses(v);
    }
    p
}

fn expect_mania<'m>(map: &'m Beatmap, s: &OsuSet) -> ManiaPerformance<'m> {
    let mut p = ManiaPerformance::new(map).difficulty(mk_difficulty(s)).hitresult_priority(prio(s.best));
    if let Some(a) = s.acc {
        p = p.accuracy(f64::from(a));
    }
    if let Some(v) = s.n300 {
        p = p.n300(v);
    }
    if let Some(v) = s.n100 {
        p = p.n100(v);
    }
    if let Some(v) = s.n50 {
        p = p.n50(v);
    }
    if let Some(v) = s.misses {
        p = p.misses(v);
    }
    p
}

fn mode_of(t: u8) -> GameMode {
    match t {
        0 => GameMode::Osu,
        1 => GameMode::Taiko,
        2 => GameMode::Catch,
        _ => GameMode::Mania,
    }
}

fn convertible(map: &Beatmap, target: GameMode) -> bool {
    // the decision tree proven by c07_convert_tree_empty
    map.mode == target || (!map.is_convert && map.mode == GameMode::Osu)
}

/// Signature of `convert(map)`: under Kani (converters stubbed) from the stub model, natively from
/// the real `convert_ref`.
fn converted_sig(map: &Beatmap, target: GameMode, mods: &GameMods) -> (GameMode, bool, u32, u32, u32, u32, usize, usize) {
    if crate::verif_harness::common::ghost_probe() {
        let mut s = sig(map);
        if map.mode != target {
            s.0 = target;
            s.1 = true;
            if target == GameMode::Mania {
                s.2 = mods.mania_keys().unwrap_or(7.0).to_bits();
            }
        }
        s
    } else {
        let c = map.convert_ref(target, mods).unwrap();
        let s = sig(c.as_ref());
        core::mem::forget(c);
        s
    }
}

fn check_converted(res: &Performance<'_>, map: &Beatmap, target: GameMode, s: &OsuSet) {
    let mods = GameMods::from(s.mods);
    let want = converted_sig(map, target, &mods);
    match res {
        Performance::Osu(o) => {
            assert!(target == GameMode::Osu, "C07 try_mode(Osu) keeps the osu! builder");
            assert!(same_map(o.v_map(), map), "C07 osu builder keeps its map");
        }
        Performance::Taiko(t) => {
            assert!(target == GameMode::Taiko, "C07 builder variant matches the target mode");
            assert!(t.v_map().map_or(false, |m| sig(m) == want), "C07 builder holds convert(map)");
            let e = expect_taiko(map, s);
            assert!(t.v_same_settings(&e), "C07 taiko builder carries the documented fields");
            core::mem::forget(e);
        }
        Performance::Catch(c) => {
            assert!(target == GameMode::Catch, "C07 builder variant matches the target mode");
            assert!(c.v_map().map_or(false, |m| sig(m) == want), "C07 builder holds convert(map)");
            let e = expect_catch(map, s);
            assert!(c.v_same_settings(&e), "C07 catch builder carries the documented fields");
            core::mem::forget(e);
        }
        Performance::Mania(m) => {
            assert!(target == GameMode::Mania, "C07 builder variant matches the target mode");
            assert!(m.v_map().map_or(false, |mm| sig(mm) == want), "C07 builder holds convert(map)");
            let e = expect_mania(map, s);
            assert!(m.v_same_settings(&e), "C07 mania builder carries the documented fields");
            core::mem::forget(e);
        }
    }
}

/// `OsuPerformance` holding a borrowed map (any mode / convert flag) -> try_mode(TARGET).
fn try_mode_map<const TARGET: u8>() {
    let map = any_empty_map();
    let target = mode_of(TARGET);
    let s = any_osu_set();
    let conv = convertible(&map, target);

    let base = apply_osu(OsuPerformance::new(&map), &s);
    match base.try_mode(target) {
        Ok(p) => {
            assert!(conv, "C07 try_mode succeeds only when the map converts");
            check_converted(&p, &map, target, &s);
            core::mem::forget(p);
        }
        Err(o) => {
            assert!(!conv && target != GameMode::Osu, "C07 try_mode fails only when the map does not convert");
            let again = apply_osu(OsuPerformance::new(&map), &s);
            assert!(o.v_same_settings(&again), "C07 Err(self) returns the builder unchanged");
            assert!(same_map(o.v_map(), &map), "C07 Err(self) still holds the original map");
            core::mem::forget((o, again));
        }
    }
    kani::cover!(conv && map.mode == GameMode::Osu, "osu map converted");
    kani::cover!(!conv, "not convertible");
    core::mem::forget(map);
}

macro_rules! stubbed_proof {
    ($name:ident, $body:expr) => {
        #[kani::proof]
        #[kani::unwind(3)]
        #[kani::stub(crate::taiko::convert::convert, stub_taiko_convert)]
        #[kani::stub(crate::catch::convert::convert, stub_catch_convert)]
        #[kani::stub(crate::mania::convert::convert, stub_mania_convert)]
        #[kani::stub(crate::verif_harness::common::ghost_probe, crate::verif_harness::common::ghost_probe_on)]
        pub fn $name() {
            $body
        }
    };
}

stubbed_proof!(c07_try_mode_to_taiko, try_mode_map::<1>());
stubbed_proof!(c07_try_mode_to_catch, try_mode_map::<2>());
stubbed_proof!(c07_try_mode_to_mania, try_mode_map::<3>());

/// mode_or_ignore == try_mode with the error folded back; the generic front end; attribute-backed
/// builders never convert.
fn mode_or_ignore_and_attrs<const TARGET: u8>() {
    let map = any_empty_map();
    let target = mode_of(TARGET);
    let s = any_osu_set();
    let conv = convertible(&map, target);

    let p = apply_osu(OsuPerformance::new(&map), &s).mode_or_ignore(target);
    if conv {
        check_converted(&p, &map, target, &s);
    } else {
        match &p {
            Performance::Osu(o) => {
                let again = apply_osu(OsuPerformance::new(&map), &s);
                assert!(o.v_same_settings(&again) && same_map(o.v_map(), &map), "C07 mode_or_ignore leaves the builder untouched on failure");
                core::mem::forget(again);
            }
            _ => assert!(false, "C07 mode_or_ignore keeps the osu! builder on failure"),
        }
    }
    core::mem::forget(p);

    // attribute-backed: no map, no conversion
    let a = apply_osu(OsuPerformance::new(OsuDifficultyAttributes::default()), &s);
    match a.try_mode(target) {
        Ok(r) => {
            assert!(target == GameMode::Osu, "C07 attribute-backed builders only 'convert' to osu!");
            core::mem::forget(r);
        }
        Err(o) => {
            assert!(target != GameMode::Osu, "C07 attribute-backed builders refuse other modes");
            let again = apply_osu(OsuPerformance::new(OsuDifficultyAttributes::default()), &s);
            assert!(o.v_same_settings(&again) && o.v_attrs().is_some(), "C07 Err(self) unchanged for attribute-backed builders");
            core::mem::forget((o, again));
        }
    }
    kani::cover!(conv && map.mode == GameMode::Osu, "osu map converted via mode_or_ignore");
    kani::cover!(!conv && map.mode == GameMode::Catch, "catch map cannot convert");
    core::mem::forget(map);
}

stubbed_proof!(c07_mode_or_ignore_taiko, mode_or_ignore_and_attrs::<1>());
stubbed_proof!(c07_mode_or_ignore_mania, mode_or_ignore_and_attrs::<3>());

/// The generic `Performance` front end: dispatch on the map's mode, try_mode variants.
fn generic_front<const TARGET: u8>() {
    let map = any_empty_map();
    let target = mode_of(TARGET);
    let conv = convertible(&map, target);
    let q = Performance::new(&map);
    let q_is_osu = matches!(q, Performance::Osu(_));
    assert!(q_is_osu == (map.mode == GameMode::Osu), "C07 Performance::new dispatches on the map's mode");
    match q.try_mode(target) {
        Ok(r) => {
            let same_mode_variant = match (&r, target) {
                (Performance::Osu(_), GameMode::Osu)
                | (Performance::Taiko(_), GameMode::Taiko)
                | (Performance::Catch(_), GameMode::Catch)
                | (Performance::Mania(_), GameMode::Mania) => true,
                _ => false,
            };
            assert!(same_mode_variant, "C07 Performance::try_mode yields the target variant");
            assert!(conv, "C07 Performance::try_mode succeeds only when the map converts");
            core::mem::forget(r);
        }
        Err(r) => {
            assert!(!conv, "C07 Performance::try_mode fails only when the map does not convert");
            core::mem::forget(r);
        }
    }
    kani::cover!(conv && map.mode == GameMode::Osu, "osu map converted through the generic front end");
    kani::cover!(!conv, "generic front end refuses");
    core::mem::forget(map);
}

stubbed_proof!(c07_generic_front_catch, generic_front::<2>());
stubbed_proof!(c07_generic_front_osu, generic_front::<0>());

verif_replay_table!(verif_replay_c07;
    c07_convert_tree_osu_taiko_catch, c07_convert_tree_mania, c07_try_mode_to_taiko, c07_try_mode_to_catch, c07_try_mode_to_mania,
    c07_mode_or_ignore_taiko, c07_mode_or_ignore_mania, c07_generic_front_catch, c07_generic_front_osu,
);
