// C04 — reusing computed attributes gives the same performance as using the map (builder level).
//
// The mode's one-shot difficulty entry (`<mode>::difficulty::difficulty`, what
// `Difficulty::calculate_for_mode::<M>` runs) is replaced by a stub that logs its `Difficulty`
// argument and returns a ghost attribute value A (symbolic shape). Then, for a map-backed builder:
// the entry is called exactly once, with the builder's own Difficulty unchanged; afterwards the
// builder holds A; it generates the same state as, and equals field by field, the builder started
// from A with the same setters. Every IntoPerformance / IntoModePerformance conversion of A yields
// that same attribute-backed builder.

use crate::{
    any::{Difficulty, DifficultyAttributes, HitResultPriority, Performance, PerformanceAttributes},
    catch::{CatchDifficultyAttributes, CatchPerformance, CatchPerformanceAttributes},
    mania::{ManiaDifficultyAttributes, ManiaPerformance, ManiaPerformanceAttributes},
    model::mode::ConvertError,
    osu::{OsuDifficultyAttributes, OsuPerformance, OsuPerformanceAttributes},
    taiko::{TaikoDifficultyAttributes, TaikoPerformance, TaikoPerformanceAttributes},
    verif_harness::common::{any_opt_u32_le, VerifPerf},
    Beatmap,
};

static mut CALLS: usize = 0;
static mut SEEN: Option<Difficulty> = None;
static mut GHOST: [u32; 5] = [0; 5];

fn any_le(max: u32) -> u32 {
    let v: u32 = kani::any();
    kani::assume(v <= max);
    v
}

fn log_call(d: &Difficulty) {
    unsafe {
        CALLS += 1;
        SEEN = Some(d.clone());
    }
}

fn ghost_osu() -> OsuDifficultyAttributes {
    let g = unsafe { GHOST };
    OsuDifficultyAttributes { n_circles: g[0], n_sliders: g[1], n_spinners: g[2], n_large_ticks: g[3], max_combo: g[4], ..Default::default() }
}
fn ghost_taiko() -> TaikoDifficultyAttributes {
    let g = unsafe { GHOST };
    TaikoDifficultyAttributes { max_combo: g[0], is_convert: g[1] & 1 == 1, ..Default::default() }
}
fn ghost_catch() -> CatchDifficultyAttributes {
    let g = unsafe { GHOST };
    CatchDifficultyAttributes { n_fruits: g[0], n_droplets: g[1], n_tiny_droplets: g[2], is_convert: g[3] & 1 == 1, ..Default::default() }
}
fn ghost_mania() -> ManiaDifficultyAttributes {
    let g = unsafe { GHOST };
    ManiaDifficultyAttributes { n_objects: g[0], n_hold_notes: g[1], max_combo: g[2], is_convert: g[3] & 1 == 1, ..Default::default() }
}

fn stub_osu(d: &Difficulty, _m: &Beatmap) -> Result<OsuDifficultyAttributes, ConvertError> {
    log_call(d);
    Ok(ghost_osu())
}
fn stub_taiko(d: &Difficulty, _m: &Beatmap) -> Result<TaikoDifficultyAttributes, ConvertError> {
    log_call(d);
    Ok(ghost_taiko())
}
fn stub_catch(d: &Difficulty, _m: &Beatmap) -> Result<CatchDifficultyAttributes, ConvertError> {
    log_call(d);
    Ok(ghost_catch())
}
fn stub_mania(d: &Difficulty, _m: &Beatmap) -> Result<ManiaDifficultyAttributes, ConvertError> {
    log_call(d);
    Ok(ghost_mania())
}

fn any_ghost() {
    let g = [any_le(10), any_le(3), any_le(10), any_le(3), any_le(40)];
    // keep the osu! counting invariant so generate_state's arithmetic is inside its domain
    kani::assume(g[4] == g[0] + g[2] + 2 * g[1] + g[3]);
    unsafe { GHOST = g };
}

#[derive(Clone, Copy)]
struct Settings {
    bits: u32,
    passed: Option<u32>,
    lazer: Option<bool>,
    combo: Option<u32>,
    a: Option<u32>,
    b: Option<u32>,
    c: Option<u32>,
    misses: Option<u32>,
    best: bool,
}

fn any_settings() -> Settings {
    Settings {
        bits: kani::any(),
        passed: any_opt_u32_le(60),
        lazer: if kani::any() { Some(kani::any()) } else { None },
        combo: any_opt_u32_le(60),
        a: any_opt_u32_le(60),
        b: any_opt_u32_le(60),
        c: any_opt_u32_le(60),
        misses: any_opt_u32_le(60),
        best: kani::any(),
    }
}

fn difficulty_of(s: &Settings) -> Difficulty {
    let mut d = Difficulty::new().mods(s.bits);
    if let Some(p) = s.passed {
        d = d.passed_objects(p);
    }
    if let Some(l) = s.lazer {
        d = d.lazer(l);
    }
    d
}

fn prio(best: bool) -> HitResultPriority {
    if best {
        HitResultPriority::BestCase
    } else {
        HitResultPriority::WorstCase
    }
}

macro_rules! set {
    ($p:ident, $opt:expr, $setter:ident) => {
        if let Some(v) = $opt {
            $p = $p.$setter(v);
        }
    };
}

fn osu_apply<'m>(mut p: OsuPerformance<'m>, s: &Settings) -> OsuPerformance<'m> {
    p = p.difficulty(difficulty_of(s)).hitresult_priority(prio(s.best));
    set!(p, s.combo, combo);
    set!(p, s.a, n300);
    set!(p, s.b, n100);
    set!(p, s.c, n50);
    set!(p, s.misses, misses);
    p
}
fn taiko_apply<'m>(mut p: TaikoPerformance<'m>, s: &Settings) -> TaikoPerformance<'m> {
    p = p.difficulty(difficulty_of(s)).hitresult_priority(prio(s.best));
    set!(p, s.combo, combo);
    set!(p, s.a, n300);
    set!(p, s.b, n100);
    set!(p, s.misses, misses);
    p
}
fn catch_apply<'m>(mut p: CatchPerformance<'m>, s: &Settings) -> CatchPerformance<'m> {
    p = p.difficulty(difficulty_of(s));
    set!(p, s.combo, combo);
    set!(p, s.a, fruits);
    set!(p, s.b, droplets);
    set!(p, s.c, tiny_droplets);
    set!(p, s.misses, misses);
    p
}
fn mania_apply<'m>(mut p: ManiaPerformance<'m>, s: &Settings) -> ManiaPerformance<'m> {
    p = p.difficulty(difficulty_of(s)).hitresult_priority(prio(s.best));
    set!(p, s.a, n320);
    set!(p, s.b, n300);
    set!(p, s.c, n100);
    set!(p, s.misses, misses);
    p
}

macro_rules! map_vs_attrs {
    ($name:ident, $stubbed:path, $stub:ident, $perf:ident, $apply:ident, $ghost:ident, $mode_variant:ident) => {
        #[kani::proof]
        #[kani::unwind(4)]
        #[kani::stub($stubbed, $stub)]
        pub fn $name() {
            any_ghost();
            let s = any_settings();
            let map = Beatmap::default();
            let mut by_map = $apply($perf::new(&map), &s);
            let mut by_attrs = $apply($perf::new($ghost()), &s);
            assert!(by_map.v_attrs().is_none() && by_map.v_map().is_some(), "C04 a map-backed builder starts without attributes");

            let st_map = by_map.generate_state().unwrap();
            let st_attrs = by_attrs.generate_state().unwrap();
            assert!(unsafe { CALLS } == 1, "C04 the difficulty of the map is calculated exactly once");
            assert!(unsafe { SEEN.as_ref() } == Some(&difficulty_of(&s)), "C04 the map's difficulty is calculated with the builder's own settings");
            assert!(st_map == st_attrs, "C04 map-backed and attribute-backed builders generate the same state");
            assert!(by_map.v_attrs() == Some(&$ghost()), "C04 the builder keeps the computed attributes");
            assert!(by_map.v_same_settings(&by_attrs), "C04 map-backed and attribute-backed builders end up equal");

            // a second generate_state reuses the attributes
            let again = by_map.generate_state().unwrap();
            assert!(unsafe { CALLS } == 1 && again == st_map, "C04 attributes are reused, not recomputed");

            // the generic front end dispatches to the same builder
            let via_any = Performance::new($ghost());
            let ok = matches!(&via_any, Performance::$mode_variant(p) if p.v_attrs() == Some(&$ghost()));
            assert!(ok, "C04 Performance::new(attrs) holds the given attributes");
            kani::cover!(s.passed.is_some() && s.misses.is_some(), "partial play with misses");
            kani::cover!(true, "end reached");
            core::mem::forget((by_map, by_attrs, via_any));
            core::mem::forget(map);
        }
    };
}

map_vs_attrs!(c04_osu_map_vs_attrs, crate::osu::difficulty::difficulty, stub_osu, OsuPerformance, osu_apply, ghost_osu, Osu);
map_vs_attrs!(c04_taiko_map_vs_attrs, crate::taiko::difficulty::difficulty, stub_taiko, TaikoPerformance, taiko_apply, ghost_taiko, Taiko);
map_vs_attrs!(c04_catch_map_vs_attrs, crate::catch::difficulty::difficulty, stub_catch, CatchPerformance, catch_apply, ghost_catch, Catch);
map_vs_attrs!(c04_mania_map_vs_attrs, crate::mania::difficulty::difficulty, stub_mania, ManiaPerformance, mania_apply, ghost_mania, Mania);

/// Every conversion of attributes into a builder yields the same attribute-backed builder.
#[kani::proof]
#[kani::unwind(6)]
pub fn c04_into_performance_conversions() {
    any_ghost();
    let which: u8 = kani::any();
    kani::assume(which < 4);
    match which {
        0 => {
            let a = ghost_osu();
            let base = OsuPerformance::new(a.clone());
            assert!(base.v_attrs() == Some(&a), "C04 OsuPerformance::new(attrs) holds the attributes");
            let pa = OsuPerformanceAttributes { difficulty: a.clone(), pp: 1.0, ..Default::default() };
            let from_pa = OsuPerformance::new(pa.clone());
            assert!(from_pa.v_attrs() == Some(&a) && from_pa.v_same_settings(&base), "C04 performance attributes convert through their difficulty part");
            let via = [
                a.clone().performance(),
                OsuPerformance::from(a.clone()),
                pa.clone().performance(),
            ];
            for p in via.iter() {
                assert!(p.v_attrs() == Some(&a) && p.v_same_settings(&base), "C04 every osu! conversion yields the same builder");
            }
            let any1 = DifficultyAttributes::Osu(a.clone()).performance();
            let any2 = PerformanceAttributes::Osu(pa).performance();
            for p in [&any1, &any2] {
                assert!(matches!(p, Performance::Osu(o) if o.v_attrs() == Some(&a) && o.v_same_settings(&base)), "C04 enum attributes convert to the osu! builder");
            }
            assert!(OsuPerformance::try_new(DifficultyAttributes::Osu(a.clone())).is_some(), "C04 try_new accepts matching attributes");
            assert!(OsuPerformance::try_new(DifficultyAttributes::Taiko(ghost_taiko())).is_none(), "C04 try_new rejects attributes of another mode");
            core::mem::forget((base, from_pa, via, any1, any2));
        }
        1 => {
            let a = ghost_taiko();
            let base = TaikoPerformance::new(a.clone());
            let pa = TaikoPerformanceAttributes { difficulty: a.clone(), ..Default::default() };
            let via = [a.clone().performance(), TaikoPerformance::from(a.clone()), pa.clone().performance(), TaikoPerformance::new(pa.clone())];
            for p in via.iter() {
                assert!(p.v_attrs() == Some(&a) && p.v_same_settings(&base), "C04 every taiko conversion yields the same builder");
            }
            let any2 = PerformanceAttributes::Taiko(pa).performance();
            assert!(matches!(&any2, Performance::Taiko(o) if o.v_attrs() == Some(&a)), "C04 enum attributes convert to the taiko builder");
            assert!(TaikoPerformance::try_new(DifficultyAttributes::Mania(ghost_mania())).is_none(), "C04 try_new rejects attributes of another mode");
            core::mem::forget((base, via, any2));
        }
        2 => {
            let a = ghost_catch();
            let base = CatchPerformance::new(a.clone());
            let pa = CatchPerformanceAttributes { difficulty: a.clone(), ..Default::default() };
            let via = [a.clone().performance(), CatchPerformance::from(a.clone()), pa.clone().performance(), CatchPerformance::new(pa.clone())];
            for p in via.iter() {
                assert!(p.v_attrs() == Some(&a) && p.v_same_settings(&base), "C04 every catch conversion yields the same builder");
            }
            let any1 = DifficultyAttributes::Catch(a.clone()).performance();
            assert!(matches!(&any1, Performance::Catch(o) if o.v_attrs() == Some(&a)), "C04 enum attributes convert to the catch builder");
            core::mem::forget((base, via, any1));
        }
        _ => {
            let a = ghost_mania();
            let base = ManiaPerformance::new(a.clone());
            let pa = ManiaPerformanceAttributes { difficulty: a.clone(), ..Default::default() };
            let via = [a.clone().performance(), ManiaPerformance::from(a.clone()), pa.clone().performance(), ManiaPerformance::new(pa.clone())];
            for p in via.iter() {
                assert!(p.v_attrs() == Some(&a) && p.v_same_settings(&base), "C04 every mania conversion yields the same builder");
            }
            let any1 = DifficultyAttributes::Mania(a.clone()).performance();
            assert!(matches!(&any1, Performance::Mania(o) if o.v_attrs() == Some(&a)), "C04 enum attributes convert to the mania builder");
            core::mem::forget((base, via, any1));
        }
    }
    kani::cover!(which == 0, "osu");
    kani::cover!(which == 3, "mania");
}

verif_replay_table!(verif_replay_c04;
    c04_osu_map_vs_attrs, c04_taiko_map_vs_attrs, c04_catch_map_vs_attrs, c04_mania_map_vs_attrs,
    c04_into_performance_conversions,
);
