// Shared helpers for all harness modules (crate::verif_harness::common).

use rosu_map::section::general::GameMode;

/// Returns `true` only when the harness runs under Kani *with stubs applied*.
/// `ghost_probe` is replaced through `#[kani::stub(.., ghost_probe_on)]` in harnesses whose
/// assertions depend on recording stubs; natively (concrete playback, where stubs are not applied)
/// it is `false` and stub-dependent assertions are skipped.
#[inline(never)]
pub(crate) fn ghost_probe() -> bool {
    false
}
#[inline(never)]
pub(crate) fn ghost_probe_on() -> bool {
    true
}

pub(crate) fn any_mode() -> GameMode {
    let m: u8 = kani::any();
    kani::assume(m < 4);
    match m {
        0 => GameMode::Osu,
        1 => GameMode::Taiko,
        2 => GameMode::Catch,
        _ => GameMode::Mania,
    }
}

pub(crate) fn any_f32_non_nan() -> f32 {
    let v: f32 = kani::any();
    kani::assume(!v.is_nan());
    v
}

pub(crate) fn any_f64_non_nan() -> f64 {
    let v: f64 = kani::any();
    kani::assume(!v.is_nan());
    v
}

pub(crate) fn any_opt_u32_le(max: u32) -> Option<u32> {
    let some: bool = kani::any();
    if some {
        let v: u32 = kani::any();
        kani::assume(v <= max);
        Some(v)
    } else {
        None
    }
}

/// Parses the replay file named by `$VERIF_REPLAY`:
/// line 1 = harness name, every further line = one `kani::any()` draw as space separated
/// decimal bytes (an empty line is an empty draw).
#[cfg(test)]
pub(crate) fn load_replay() -> Option<(String, Vec<Vec<u8>>)> {
    let path = std::env::var("VERIF_REPLAY").ok()?;
    let text = std::fs::read_to_string(path).expect("VERIF_REPLAY file readable");
    let mut lines = text.split('\n');
    let name = lines.next().unwrap_or("").trim().to_owned();
    let mut vals = Vec::new();
    let all: Vec<&str> = lines.collect();
    // A trailing newline yields one empty last element which is not a draw.
    let n = if all.last().map_or(false, |l| l.is_empty()) {
        all.len() - 1
    } else {
        all.len()
    };
    for l in &all[..n] {
        vals.push(
            l.split_whitespace()
                .map(|b| b.parse::<u8>().expect("byte"))
                .collect::<Vec<u8>>(),
        );
    }
    Some((name, vals))
}

/// Declares the native replay entry of one harness file: a `#[test]` that, when
/// `$VERIF_REPLAY` names one of the listed harnesses, runs it under Kani's concrete playback
/// (real code, no stubs) with the recorded draws.
macro_rules! verif_replay_table {
    ($testname:ident; $($h:ident),* $(,)?) => {
        #[cfg(test)]
        #[test]
        fn $testname() {
            let Some((name, vals)) = crate::verif_harness::common::load_replay() else { return };
            $(
                if name == stringify!($h) {
                    println!("VERIF-REPLAY-RUN {}", name);
                    kani::concrete_playback_run(vals, $h);
                    println!("VERIF-REPLAY-PASSED {}", name);
                    return;
                }
            )*
        }
    };
}

pub(crate) use verif_replay_table;

/// Implemented in the `*_perf.rs` hook modules (which can see the private fields).
pub(crate) trait VerifPerf {
    type Attrs;
    fn v_difficulty(&self) -> &crate::Difficulty;
    /// every builder field except the map/attributes slot is equal
    fn v_same_settings(&self, other: &Self) -> bool;
    fn v_attrs(&self) -> Option<&Self::Attrs>;
    fn v_map(&self) -> Option<&crate::Beatmap>;
    fn v_map_is_borrowed(&self) -> bool;
}

pub(crate) fn perf_same_settings(a: &crate::any::Performance<'_>, b: &crate::any::Performance<'_>) -> bool {
    use crate::any::Performance as P;
    match (a, b) {
        (P::Osu(a), P::Osu(b)) => a.v_same_settings(b),
        (P::Taiko(a), P::Taiko(b)) => a.v_same_settings(b),
        (P::Catch(a), P::Catch(b)) => a.v_same_settings(b),
        (P::Mania(a), P::Mania(b)) => a.v_same_settings(b),
        _ => false,
    }
}

pub(crate) fn perf_difficulty<'a>(p: &'a crate::any::Performance<'_>) -> &'a crate::Difficulty {
    use crate::any::Performance as P;
    match p {
        P::Osu(o) => o.v_difficulty(),
        P::Taiko(t) => t.v_difficulty(),
        P::Catch(c) => c.v_difficulty(),
        P::Mania(m) => m.v_difficulty(),
    }
}
