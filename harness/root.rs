// Spliced into rosu-pp as `crate::verif_harness` (hook at the end of src/lib.rs, cfg(kani)).
// Everything here is reachable only under `cargo kani` / `cargo kani playback`.
#![allow(dead_code, unused_imports, clippy::all, clippy::pedantic)]

#[path = "/verif/harness/common.rs"]
#[macro_use]
pub(crate) mod common;

#[path = "/verif/harness/c18_settings.rs"]
pub(crate) mod c18_settings;

#[path = "/verif/harness/c12_states.rs"]
pub(crate) mod c12_states;

#[path = "/verif/harness/c07_convert.rs"]
pub(crate) mod c07_convert;

#[path = "/verif/harness/c17_attrs.rs"]
pub(crate) mod c17_attrs;

#[path = "/verif/harness/c09_finite.rs"]
pub(crate) mod c09_finite;

#[path = "/verif/harness/c08_mods.rs"]
pub(crate) mod c08_mods;

#[path = "/verif/harness/c04_reuse.rs"]
pub(crate) mod c04_reuse;

#[path = "/verif/harness/c13_acc.rs"]
pub(crate) mod c13_acc;
