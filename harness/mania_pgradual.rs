// harness site: src/mania/performance/gradual.rs
#![allow(dead_code, unused_imports, clippy::all, clippy::pedantic)]
