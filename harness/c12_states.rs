// C12 — generated score states are consistent, stable and what calculate() uses.
// C13 — accuracy-driven hit results are the closest achievable (same harness family, bottom).
//
// Encoded (real code): `{Osu,Taiko,Catch,Mania}Performance::generate_state`, all public setters,
// `state()`, `*ScoreState::accuracy`. Builders are attribute-backed (symbolic attribute shapes).
//
// Formalisation (conservative: code that satisfies the prose of C12 never alarms):
//  (a) misses <= N                      N = min(passed_objects, objects of the shape)
//  (b) if the provided values admit a completion (their sum, misses None = 0, does not exceed N;
//      for catch additionally the per-kind caps) then every provided hit result is returned
//      unchanged — unless *all* hit results were provided and leave a gap, in which case the
//      gap has to go somewhere and the provided ones may only grow;
//  (c) the hit results add up to N whenever the provided ones do not already exceed N;
//  (d) combo <= max_combo - misses;
//  (e) generate_state() twice gives the same state;
//  (f) a fresh builder over the same attributes and Difficulty given `.state(generated)`
//      generates exactly `generated` (calculate() = generate_state() + calculator).

use crate::{
    any::{Difficulty, HitResultPriority},
    catch::{CatchDifficultyAttributes, CatchPerformance, CatchScoreState},
    mania::{ManiaDifficultyAttributes, ManiaPerformance, ManiaScoreState},
    osu::{OsuDifficultyAttributes, OsuPerformance, OsuScoreState},
    taiko::{TaikoDifficultyAttributes, TaikoPerformance, TaikoScoreState},
    verif_harness::common::any_opt_u32_le,
};

pub(crate) const VAL_MAX: u32 = 1_000_000;

fn any_priority() -> HitResultPriority {
    if kani::any() {
        HitResultPriority::BestCase
    } else {
        HitResultPriority::WorstCase
    }
}

fn any_le(max: u32) -> u32 {
    let v: u32 = kani::any();
    kani::assume(v <= max);
    v
}

/// Difficulty with symbolic legacy mods, passed_objects and lazer flag.
fn any_difficulty(passed: Option<u32>, lazer: Option<bool>) -> Difficulty {
    let mut d = Difficulty::new().mods(kani::any::<u32>());
    if let Some(p) = passed {
        d = d.passed_objects(p);
    }
    if let Some(l) = lazer {
        d = d.lazer(l);
    }
    d
}

fn s(v: Option<u32>) -> u32 {
    v.unwrap_or(0)
}

// ------------------------------------------------------------------------------------------ osu

#[derive(Clone, Copy)]
pub(crate) struct OsuShape {
    pub n_circles: u32,
    pub n_sliders: u32,
    pub n_spinners: u32,
    pub n_large_ticks: u32,
    pub max_combo: u32,
}

impl OsuShape {
    pub(crate) fn any(max_objs: u32, max_sliders: u32, max_ticks: u32) -> Self {
        let sh = Self {
            n_circles: any_le(max_objs),
            n_sliders: any_le(max_sliders),
            n_spinners: any_le(max_objs),
            n_large_ticks: any_le(max_ticks),
            max_combo: kani::any(),
        };
        kani::assume(sh.n_circles + sh.n_sliders + sh.n_spinners <= max_objs);
        // the library's own counting invariant (osu/convert.rs): every object adds one combo,
        // every slider additionally its tail and its large ticks
        kani::assume(sh.max_combo == sh.n_circles + sh.n_spinners + 2 * sh.n_sliders + sh.n_large_ticks);
        sh
    }

    pub(crate) fn attrs(&self) -> OsuDifficultyAttributes {
        OsuDifficultyAttributes {
            n_circles: self.n_circles,
            n_sliders: self.n_sliders,
            n_spinners: self.n_spinners,
            n_large_ticks: self.n_large_ticks,
            max_combo: self.max_combo,
            ..Default::default()
        }
    }

    pub(crate) fn n_objects(&self) -> u32 {
        self.n_circles + self.n_sliders + self.n_spinners
    }
}

#[derive(Clone, Copy)]
pub(crate) struct OsuGiven {
    pub combo: Option<u32>,
    pub large: Option<u32>,
    pub small: Option<u32>,
    pub ends: Option<u32>,
    pub n300: Option<u32>,
    pub n100: Option<u32>,
    pub n50: Option<u32>,
    pub misses: Option<u32>,
    pub acc: Option<f64>,
    pub priority: HitResultPriority,
    pub passed: Option<u32>,
    pub lazer: Option<bool>,
}

impl OsuGiven {
    pub(crate) fn any(vmax: u32) -> Self {
        Self {
            combo: any_opt_u32_le(vmax),
            large: any_opt_u32_le(vmax),
            small: any_opt_u32_le(vmax),
            ends: any_opt_u32_le(vmax),
            n300: any_opt_u32_le(vmax),
            n100: any_opt_u32_le(vmax),
            n50: any_opt_u32_le(vmax),
            misses: any_opt_u32_le(vmax),
            acc: None,
            priority: any_priority(),
            passed: any_opt_u32_le(vmax),
            lazer: if kani::any() { Some(kani::any()) } else { None },
        }
    }

    pub(crate) fn builder(&self, sh: &OsuShape, d: Difficulty) -> OsuPerformance<'static> {
        let mut p = OsuPerformance::new(sh.attrs()).difficulty(d).hitresult_priority(self.priority);
        if let Some(v) = self.combo {
            p = p.combo(v);
        }
        if let Some(v) = self.large {
            p = p.large_tick_hits(v);
        }
        if let Some(v) = self.small {
            p = p.small_tick_hits(v);
        }
        if let Some(v) = self.ends {
            p = p.slider_end_hits(v);
        }
        if let Some(v) = self.n300 {
            p = p.n300(v);
        }
        if let Some(v) = self.n100 {
            p = p.n100(v);
        }
        if let Some(v) = self.n50 {
            p = p.n50(v);
        }
        if let Some(v) = self.misses {
            p = p.misses(v);
        }
        if let Some(a) = self.acc {
            p = p.accuracy(a);
        }
        p
    }
}

pub(crate) fn osu_check(sh: &OsuShape, g: &OsuGiven, mods_bits: u32) -> OsuScoreState {
    let mk_d = || {
        let mut d = Difficulty::new().mods(mods_bits);
        if let Some(p) = g.passed {
            d = d.passed_objects(p);
        }
        if let Some(l) = g.lazer {
            d = d.lazer(l);
        }
        d
    };
    let mut p = g.builder(sh, mk_d());
    let st = p.generate_state().unwrap();

    let n = core::cmp::min(g.passed.unwrap_or(u32::MAX), sh.n_objects());
    let total = st.n300 + st.n100 + st.n50 + st.misses;

    // (a)
    assert!(st.misses <= n, "C12 osu: misses <= objects");
    // (c)
    let given_sum = s(g.n300) as u64 + s(g.n100) as u64 + s(g.n50) as u64 + s(g.misses) as u64;
    if given_sum <= n as u64 {
        assert!(total == n, "C12 osu: hit results add up to the passed objects");
        // (b)
        let all_given = g.n300.is_some() && g.n100.is_some() && g.n50.is_some();
        if !all_given || given_sum == n as u64 {
            assert!(g.n300.map_or(true, |v| st.n300 == v), "C12 osu: provided n300 kept");
            assert!(g.n100.map_or(true, |v| st.n100 == v), "C12 osu: provided n100 kept");
            assert!(g.n50.map_or(true, |v| st.n50 == v), "C12 osu: provided n50 kept");
        } else {
            assert!(st.n300 >= s(g.n300) && st.n100 >= s(g.n100) && st.n50 >= s(g.n50),
                "C12 osu: provided results only grow when all are given");
        }
        assert!(g.misses.map_or(st.misses == 0, |v| st.misses == v), "C12 osu: provided misses kept");
    }
    // (d)
    assert!(st.max_combo <= sh.max_combo.saturating_sub(st.misses), "C12 osu: combo <= achievable");
    if let Some(c) = g.combo {
        if c <= sh.max_combo.saturating_sub(st.misses) {
            assert!(st.max_combo == c, "C12 osu: achievable provided combo kept");
        }
    }
    // slider parts never exceed what the shape offers
    let lazer = g.lazer.unwrap_or(true);
    if !lazer {
        assert!(st.large_tick_hits == 0 && st.small_tick_hits == 0 && st.slider_end_hits == 0,
            "C12 osu: stable scores carry no slider parts");
    } else {
        // legacy mods carry no Classic mod: lazer == slider accuracy
        assert!(st.slider_end_hits <= sh.n_sliders && st.large_tick_hits <= sh.n_large_ticks,
            "C12 osu: slider parts <= shape");
        assert!(g.ends.map_or(st.slider_end_hits == sh.n_sliders, |v| st.slider_end_hits == v.min(sh.n_sliders)),
            "C12 osu: slider ends kept/filled");
        assert!(g.large.map_or(st.large_tick_hits == sh.n_large_ticks, |v| st.large_tick_hits == v.min(sh.n_large_ticks)),
            "C12 osu: large ticks kept/filled");
    }

    // (e)
    let st2 = p.generate_state().unwrap();
    assert!(st2 == st, "C12 osu: generate_state is idempotent");

    // (f)
    let mut q = OsuPerformance::new(sh.attrs()).difficulty(mk_d()).hitresult_priority(g.priority).state(st.clone());
    let st3 = q.generate_state().unwrap();
    assert!(st3 == st, "C12 osu: supplying the generated state explicitly reproduces it");
    if let Some(a) = g.acc {
        let mut q2 = OsuPerformance::new(sh.attrs()).difficulty(mk_d()).hitresult_priority(g.priority)
            .state(st.clone()).accuracy(a);
        let st4 = q2.generate_state().unwrap();
        assert!(st4 == st, "C12 osu: generated state is a fixpoint also with the accuracy kept");
        core::mem::forget(q2);
    }
    core::mem::forget((p, q));
    st
}

#[kani::proof]
#[kani::unwind(4)]
pub fn c12_osu_noacc_full() {
    let sh = OsuShape::any(100_000, 100_000, VAL_MAX);
    let g = OsuGiven::any(VAL_MAX);
    let st = osu_check(&sh, &g, kani::any());
    kani::cover!(g.n300.is_some() && g.n100.is_none() && st.n100 > 0, "remainder into n100");
    kani::cover!(g.misses.map_or(false, |m| m > sh.n_objects()), "misses beyond object count");
    kani::cover!(sh.n_objects() == 0, "empty shape");
    kani::cover!(g.lazer == Some(false) && sh.n_sliders > 0, "stable with sliders");
    kani::cover!(g.passed.map_or(false, |p| p < sh.n_objects()) , "partial play");
}

// ---------------------------------------------------------------------------------------- taiko

#[derive(Clone, Copy)]
pub(crate) struct TaikoGiven {
    pub combo: Option<u32>,
    pub n300: Option<u32>,
    pub n100: Option<u32>,
    pub misses: Option<u32>,
    pub acc: Option<f64>,
    pub priority: HitResultPriority,
    pub passed: Option<u32>,
}

impl TaikoGiven {
    pub(crate) fn any(vmax: u32) -> Self {
        Self {
            combo: any_opt_u32_le(vmax),
            n300: any_opt_u32_le(vmax),
            n100: any_opt_u32_le(vmax),
            misses: any_opt_u32_le(vmax),
            acc: None,
            priority: any_priority(),
            passed: any_opt_u32_le(vmax),
        }
    }

    pub(crate) fn builder(&self, max_combo: u32, d: Difficulty) -> TaikoPerformance<'static> {
        let attrs = TaikoDifficultyAttributes { max_combo, ..Default::default() };
        let mut p = TaikoPerformance::new(attrs).difficulty(d).hitresult_priority(self.priority);
        if let Some(v) = self.combo {
            p = p.combo(v);
        }
        if let Some(v) = self.n300 {
            p = p.n300(v);
        }
        if let Some(v) = self.n100 {
            p = p.n100(v);
        }
        if let Some(v) = self.misses {
            p = p.misses(v);
        }
        if let Some(a) = self.acc {
            p = p.accuracy(a);
        }
        p
    }
}

pub(crate) fn taiko_check(max_combo: u32, g: &TaikoGiven, mods_bits: u32) -> TaikoScoreState {
    let mk_d = || {
        let mut d = Difficulty::new().mods(mods_bits);
        if let Some(p) = g.passed {
            d = d.passed_objects(p);
        }
        d
    };
    let mut p = g.builder(max_combo, mk_d());
    let st = p.generate_state().unwrap();
    let n = core::cmp::min(g.passed.unwrap_or(u32::MAX), max_combo);
    let total = st.n300 + st.n100 + st.misses;

    assert!(st.misses <= n, "C12 taiko: misses <= objects");
    let given_sum = s(g.n300) as u64 + s(g.n100) as u64 + s(g.misses) as u64;
    if given_sum <= n as u64 {
        assert!(total == n, "C12 taiko: hit results add up to the passed objects");
        let all_given = g.n300.is_some() && g.n100.is_some();
        if !all_given || given_sum == n as u64 {
            assert!(g.n300.map_or(true, |v| st.n300 == v), "C12 taiko: provided n300 kept");
            assert!(g.n100.map_or(true, |v| st.n100 == v), "C12 taiko: provided n100 kept");
        } else {
            assert!(st.n300 >= s(g.n300) && st.n100 >= s(g.n100),
                "C12 taiko: provided results only grow when all are given");
        }
        assert!(g.misses.map_or(st.misses == 0, |v| st.misses == v), "C12 taiko: provided misses kept");
    }
    assert!(st.max_combo <= max_combo.saturating_sub(st.misses), "C12 taiko: combo <= achievable");
    if let Some(c) = g.combo {
        if c <= max_combo.saturating_sub(st.misses) {
            assert!(st.max_combo == c, "C12 taiko: achievable provided combo kept");
        }
    }
    let st2 = p.generate_state().unwrap();
    assert!(st2 == st, "C12 taiko: generate_state is idempotent");
    let attrs = TaikoDifficultyAttributes { max_combo, ..Default::default() };
    let mut q = TaikoPerformance::new(attrs).difficulty(mk_d()).hitresult_priority(g.priority).state(st);
    let st3 = q.generate_state().unwrap();
    assert!(st3 == st, "C12 taiko: supplying the generated state explicitly reproduces it");
    if let Some(a) = g.acc {
        let attrs = TaikoDifficultyAttributes { max_combo, ..Default::default() };
        let mut q2 = TaikoPerformance::new(attrs).difficulty(mk_d()).hitresult_priority(g.priority).state(st).accuracy(a);
        assert!(q2.generate_state().unwrap() == st, "C12 taiko: generated state is a fixpoint also with the accuracy kept");
        core::mem::forget(q2);
    }
    core::mem::forget((p, q));
    st
}

#[kani::proof]
#[kani::unwind(4)]
pub fn c12_taiko_noacc_full() {
    let max_combo = any_le(VAL_MAX);
    let g = TaikoGiven::any(VAL_MAX);
    let st = taiko_check(max_combo, &g, kani::any());
    kani::cover!(g.n300.is_some() && g.n100.is_none() && st.n100 > 0, "remainder into n100");
    kani::cover!(g.misses.map_or(false, |m| m > max_combo), "misses beyond object count");
    kani::cover!(max_combo == 0, "empty shape");
    kani::cover!(g.passed.map_or(false, |p| p < max_combo), "partial play");
}

// ---------------------------------------------------------------------------------------- catch

#[derive(Clone, Copy)]
pub(crate) struct CatchShape {
    pub n_fruits: u32,
    pub n_droplets: u32,
    pub n_tiny: u32,
}

impl CatchShape {
    pub(crate) fn any(max: u32) -> Self {
        Self { n_fruits: any_le(max), n_droplets: any_le(max), n_tiny: any_le(max) }
    }
    pub(crate) fn attrs(&self) -> CatchDifficultyAttributes {
        CatchDifficultyAttributes {
            n_fruits: self.n_fruits,
            n_droplets: self.n_droplets,
            n_tiny_droplets: self.n_tiny,
            ..Default::default()
        }
    }
}

#[derive(Clone, Copy)]
pub(crate) struct CatchGiven {
    pub combo: Option<u32>,
    pub fruits: Option<u32>,
    pub droplets: Option<u32>,
    pub tiny: Option<u32>,
    pub tiny_misses: Option<u32>,
    pub misses: Option<u32>,
    pub acc: Option<f64>,
}

impl CatchGiven {
    pub(crate) fn any(vmax: u32) -> Self {
        Self {
            combo: any_opt_u32_le(vmax),
            fruits: any_opt_u32_le(vmax),
            droplets: any_opt_u32_le(vmax),
            tiny: any_opt_u32_le(vmax),
            tiny_misses: any_opt_u32_le(vmax),
            misses: any_opt_u32_le(vmax),
            acc: None,
        }
    }

    pub(crate) fn builder(&self, sh: &CatchShape, d: Difficulty) -> CatchPerformance<'static> {
        let mut p = CatchPerformance::new(sh.attrs()).difficulty(d);
        if let Some(v) = self.combo {
            p = p.combo(v);
        }
        if let Some(v) = self.fruits {
            p = p.fruits(v);
        }
        if let Some(v) = self.droplets {
            p = p.droplets(v);
        }
        if let Some(v) = self.tiny {
            p = p.tiny_droplets(v);
        }
        if let Some(v) = self.tiny_misses {
            p = p.tiny_droplet_misses(v);
        }
        if let Some(v) = self.misses {
            p = p.misses(v);
        }
        if let Some(a) = self.acc {
            p = p.accuracy(a);
        }
        p
    }
}

pub(crate) fn catch_check(sh: &CatchShape, g: &CatchGiven, mods_bits: u32, passed: Option<u32>) -> CatchScoreState {
    let mk_d = || {
        let mut d = Difficulty::new().mods(mods_bits);
        if let Some(p) = passed {
            d = d.passed_objects(p);
        }
        d
    };
    let mut p = g.builder(sh, mk_d());
    let st = p.generate_state().unwrap();
    let total = sh.n_fruits + sh.n_droplets;
    let m = s(g.misses);

    assert!(st.misses <= total, "C12 catch: misses <= objects");
    let given_sum = s(g.fruits) as u64 + s(g.droplets) as u64 + m as u64;
    if given_sum <= total as u64 {
        assert!(st.fruits + st.droplets + st.misses == total, "C12 catch: fruits + droplets + misses add up");
        assert!(st.misses == m, "C12 catch: provided misses kept");
        // a completion that keeps every provided value exists?
        let completion = match (g.fruits, g.droplets) {
            (Some(f), Some(d)) => f <= sh.n_fruits && d <= sh.n_droplets && f + d + m == total,
            (Some(f), None) => f <= sh.n_fruits && total - m - f <= sh.n_droplets,
            (None, Some(d)) => d <= sh.n_droplets && total - m - d <= sh.n_fruits,
            (None, None) => true,
        };
        if completion {
            assert!(g.fruits.map_or(true, |v| st.fruits == v), "C12 catch: provided fruits kept");
            assert!(g.droplets.map_or(true, |v| st.droplets == v), "C12 catch: provided droplets kept");
            assert!(st.fruits <= sh.n_fruits && st.droplets <= sh.n_droplets, "C12 catch: per-kind caps");
        }
    }
    let tiny_sum = s(g.tiny) as u64 + s(g.tiny_misses) as u64;
    if tiny_sum <= sh.n_tiny as u64 {
        assert!(st.tiny_droplets + st.tiny_droplet_misses == sh.n_tiny, "C12 catch: tiny droplets add up");
        let both = g.tiny.is_some() && g.tiny_misses.is_some();
        if !both || tiny_sum == sh.n_tiny as u64 {
            assert!(g.tiny.map_or(true, |v| st.tiny_droplets == v), "C12 catch: provided tiny droplets kept");
            assert!(g.tiny_misses.map_or(true, |v| st.tiny_droplet_misses == v), "C12 catch: provided tiny droplet misses kept");
        }
    }
    assert!(st.max_combo <= total.saturating_sub(st.misses), "C12 catch: combo <= achievable");
    if let Some(c) = g.combo {
        if c <= total.saturating_sub(st.misses) {
            assert!(st.max_combo == c, "C12 catch: achievable provided combo kept");
        }
    }
    let st2 = p.generate_state().unwrap();
    assert!(st2 == st, "C12 catch: generate_state is idempotent");
    let mut q = CatchPerformance::new(sh.attrs()).difficulty(mk_d()).state(st.clone());
    let st3 = q.generate_state().unwrap();
    assert!(st3 == st, "C12 catch: supplying the generated state explicitly reproduces it");
    if let Some(a) = g.acc {
        let mut q2 = CatchPerformance::new(sh.attrs()).difficulty(mk_d()).state(st.clone()).accuracy(a);
        assert!(q2.generate_state().unwrap() == st, "C12 catch: generated state is a fixpoint also with the accuracy kept");
        core::mem::forget(q2);
    }
    core::mem::forget((p, q));
    st
}

#[kani::proof]
#[kani::unwind(4)]
pub fn c12_catch_noacc_full() {
    let sh = CatchShape::any(100_000);
    let g = CatchGiven::any(VAL_MAX);
    let st = catch_check(&sh, &g, kani::any(), any_opt_u32_le(VAL_MAX));
    kani::cover!(g.fruits.is_some() && g.droplets.is_none() && st.droplets > 0, "droplets filled");
    kani::cover!(g.misses.map_or(false, |m| m > sh.n_fruits + sh.n_droplets), "misses beyond object count");
    kani::cover!(sh.n_fruits + sh.n_droplets == 0, "empty shape");
    kani::cover!(g.tiny.is_some() && g.tiny_misses.is_some(), "both tiny counts given");
}

// ---------------------------------------------------------------------------------------- mania

#[derive(Clone, Copy)]
pub(crate) struct ManiaShape {
    pub n_objects: u32,
    pub n_hold_notes: u32,
    pub max_combo: u32,
}

impl ManiaShape {
    pub(crate) fn any(max: u32) -> Self {
        let sh = Self { n_objects: any_le(max), n_hold_notes: any_le(max), max_combo: kani::any() };
        kani::assume(sh.n_hold_notes <= sh.n_objects);
        sh
    }
    pub(crate) fn attrs(&self) -> ManiaDifficultyAttributes {
        ManiaDifficultyAttributes {
            n_objects: self.n_objects,
            n_hold_notes: self.n_hold_notes,
            max_combo: self.max_combo,
            ..Default::default()
        }
    }
}

#[derive(Clone, Copy)]
pub(crate) struct ManiaGiven {
    pub n320: Option<u32>,
    pub n300: Option<u32>,
    pub n200: Option<u32>,
    pub n100: Option<u32>,
    pub n50: Option<u32>,
    pub misses: Option<u32>,
    pub acc: Option<f64>,
    pub priority: HitResultPriority,
    pub passed: Option<u32>,
    pub lazer: Option<bool>,
}

impl ManiaGiven {
    pub(crate) fn any(vmax: u32) -> Self {
        Self {
            n320: any_opt_u32_le(vmax),
            n300: any_opt_u32_le(vmax),
            n200: any_opt_u32_le(vmax),
            n100: any_opt_u32_le(vmax),
            n50: any_opt_u32_le(vmax),
            misses: any_opt_u32_le(vmax),
            acc: None,
            priority: any_priority(),
            passed: any_opt_u32_le(vmax),
            lazer: if kani::any() { Some(kani::any()) } else { None },
        }
    }

    pub(crate) fn n_given(&self) -> u32 {
        self.n320.is_some() as u32 + self.n300.is_some() as u32 + self.n200.is_some() as u32
            + self.n100.is_some() as u32 + self.n50.is_some() as u32
    }

    pub(crate) fn builder(&self, sh: &ManiaShape, d: Difficulty) -> ManiaPerformance<'static> {
        let mut p = ManiaPerformance::new(sh.attrs()).difficulty(d).hitresult_priority(self.priority);
        if let Some(v) = self.n320 {
            p = p.n320(v);
        }
        if let Some(v) = self.n300 {
            p = p.n300(v);
        }
        if let Some(v) = self.n200 {
            p = p.n200(v);
        }
        if let Some(v) = self.n100 {
            p = p.n100(v);
        }
        if let Some(v) = self.n50 {
            p = p.n50(v);
        }
        if let Some(v) = self.misses {
            p = p.misses(v);
        }
        if let Some(a) = self.acc {
            p = p.accuracy(a);
        }
        p
    }
}

pub(crate) fn mania_check(sh: &ManiaShape, g: &ManiaGiven, mods_bits: u32) -> ManiaScoreState {
    let mk_d = || {
        let mut d = Difficulty::new().mods(mods_bits);
        if let Some(p) = g.passed {
            d = d.passed_objects(p);
        }
        if let Some(l) = g.lazer {
            d = d.lazer(l);
        }
        d
    };
    let mut p = g.builder(sh, mk_d());
    let st = p.generate_state().unwrap();
    let passed_objs = core::cmp::min(g.passed.unwrap_or(u32::MAX), sh.n_objects);
    // lazer scores judge hold-note tails as well (legacy mods carry no Classic mod)
    let classic = !g.lazer.unwrap_or(true);
    let n = if classic { passed_objs } else { passed_objs + sh.n_hold_notes };
    let total = st.n320 + st.n300 + st.n200 + st.n100 + st.n50 + st.misses;

    assert!(st.misses <= passed_objs, "C12 mania: misses <= objects");
    let given_sum = s(g.n320) as u64 + s(g.n300) as u64 + s(g.n200) as u64 + s(g.n100) as u64
        + s(g.n50) as u64 + s(g.misses) as u64;
    if given_sum <= n as u64 && s(g.misses) <= passed_objs {
        assert!(total == n, "C12 mania: hit results add up to the judgements of the passed objects");
        if g.n_given() < 5 || given_sum == n as u64 {
            assert!(g.n320.map_or(true, |v| st.n320 == v), "C12 mania: provided n320 kept");
            assert!(g.n300.map_or(true, |v| st.n300 == v), "C12 mania: provided n300 kept");
            assert!(g.n200.map_or(true, |v| st.n200 == v), "C12 mania: provided n200 kept");
            assert!(g.n100.map_or(true, |v| st.n100 == v), "C12 mania: provided n100 kept");
            assert!(g.n50.map_or(true, |v| st.n50 == v), "C12 mania: provided n50 kept");
        } else {
            assert!(st.n320 >= s(g.n320) && st.n300 >= s(g.n300) && st.n200 >= s(g.n200)
                && st.n100 >= s(g.n100) && st.n50 >= s(g.n50),
                "C12 mania: provided results only grow when all are given");
        }
        assert!(g.misses.map_or(st.misses == 0, |v| st.misses == v), "C12 mania: provided misses kept");
    }
    let st2 = p.generate_state().unwrap();
    assert!(st2 == st, "C12 mania: generate_state is idempotent");
    let mut q = ManiaPerformance::new(sh.attrs()).difficulty(mk_d()).hitresult_priority(g.priority).state(st.clone());
    let st3 = q.generate_state().unwrap();
    assert!(st3 == st, "C12 mania: supplying the generated state explicitly reproduces it");
    if let Some(a) = g.acc {
        let mut q2 = ManiaPerformance::new(sh.attrs()).difficulty(mk_d()).hitresult_priority(g.priority)
            .state(st.clone()).accuracy(a);
        assert!(q2.generate_state().unwrap() == st, "C12 mania: generated state is a fixpoint also with the accuracy kept");
        core::mem::forget(q2);
    }
    core::mem::forget((p, q));
    st
}

#[kani::proof]
#[kani::unwind(4)]
pub fn c12_mania_noacc_full() {
    let sh = ManiaShape::any(100_000);
    let g = ManiaGiven::any(VAL_MAX);
    let st = mania_check(&sh, &g, kani::any());
    kani::cover!(g.n320.is_some() && g.n300.is_none() && st.n300 > 0, "remainder into n300");
    kani::cover!(g.misses.map_or(false, |m| m > sh.n_objects), "misses beyond object count");
    kani::cover!(sh.n_objects == 0, "empty shape");
    kani::cover!(g.lazer == Some(false) && sh.n_hold_notes > 0, "classic with hold notes");
    kani::cover!(g.passed.map_or(false, |p| p < sh.n_objects), "partial play");
}

impl ManiaGiven {
    /// Which hit results are provided is fixed by the *concrete* `MASK` (bit 0 = n320 … bit 4 =
    /// n50) so that CBMC resolves `generate_state`'s match on the Option pattern statically and
    /// never enters the search arm; the values stay symbolic.
    pub(crate) fn any_with_mask<const MASK: u8>(vmax: u32) -> Self {
        let opt = |bit: u8| -> Option<u32> {
            if MASK & (1 << bit) != 0 {
                Some(any_le(vmax))
            } else {
                None
            }
        };
        Self {
            n320: opt(0),
            n300: opt(1),
            n200: opt(2),
            n100: opt(3),
            n50: opt(4),
            misses: any_opt_u32_le(vmax),
            acc: None,
            priority: any_priority(),
            passed: any_opt_u32_le(vmax),
            lazer: if kani::any() { Some(kani::any()) } else { None },
        }
    }
}

/// Loop-free accuracy arms of mania's generate_state: all five or all-but-one hit results given,
/// accuracy any f64 (it is not read on these arms).
fn mania_acc_loopfree<const MASK: u8>() {
    let sh = ManiaShape::any(100_000);
    let mut g = ManiaGiven::any_with_mask::<MASK>(VAL_MAX);
    g.acc = Some(kani::any());
    let st = mania_check(&sh, &g, kani::any());
    kani::cover!(st.misses > 0 && sh.n_hold_notes > 0, "misses and hold notes");
    kani::cover!(g.passed.map_or(false, |p| p < sh.n_objects), "partial play");
}

#[kani::proof]
#[kani::unwind(4)]
pub fn c12_mania_acc_given_all() {
    mania_acc_loopfree::<0b11111>();
}
#[kani::proof]
#[kani::unwind(4)]
pub fn c12_mania_acc_missing_n320() {
    mania_acc_loopfree::<0b11110>();
}
#[kani::proof]
#[kani::unwind(4)]
pub fn c12_mania_acc_missing_n300() {
    mania_acc_loopfree::<0b11101>();
}
#[kani::proof]
#[kani::unwind(4)]
pub fn c12_mania_acc_missing_n200() {
    mania_acc_loopfree::<0b11011>();
}
#[kani::proof]
#[kani::unwind(4)]
pub fn c12_mania_acc_missing_n100() {
    mania_acc_loopfree::<0b10111>();
}
#[kani::proof]
#[kani::unwind(4)]
pub fn c12_mania_acc_missing_n50() {
    mania_acc_loopfree::<0b01111>();
}

// =================================================================================================
// Accuracy path (C12) and closest-achievable accuracy (C13).
//
// Float arithmetic is decided on a table: the requested accuracy is `ACC_TABLE[i]` with a
// symbolic index i in [LO, HI) (const generics fix the slice per harness); everything else
// (shape, provided values, misses, priority, origin) stays symbolic inside small shape bounds.

pub(crate) const ACC_TABLE: [f64; 34] = [
    100.0 / 3.0, 99.17, 0.0, 100.0, 50.0, 66.67, 75.0, 87.5, 95.0, 98.3, 12.5, 25.0, 40.0, 60.0, 70.0,
    80.0, 83.33, 90.0, 92.5, 96.0, 97.0, 97.77, 98.88, 99.0, 99.5, 99.9, 99.99, 16.67, 33.34, 55.55,
    72.25, 88.88, 93.21, 100.0 / 6.0,
];

pub(crate) fn acc_from_table<const LO: usize, const HI: usize>() -> f64 {
    let i: usize = kani::any();
    kani::assume(i >= LO && i < HI);
    ACC_TABLE[i]
}

pub(crate) const TIE_EPS: f64 = 1e-9;

fn osu_origin(sh: &OsuShape, lazer: bool) -> crate::osu::OsuScoreOrigin {
    if lazer {
        crate::osu::OsuScoreOrigin::WithSliderAcc {
            max_large_ticks: sh.n_large_ticks,
            max_slider_ends: sh.n_sliders,
        }
    } else {
        crate::osu::OsuScoreOrigin::Stable
    }
}

/// MASK: bit 0 = n300 provided, bit 1 = n100, bit 2 = n50 (concrete per harness so that the
/// match in generate_state resolves statically).
fn osu_acc<const MASK: u8, const NMAX: u32, const LO: usize, const HI: usize>() {
    let sh = OsuShape::any(NMAX, 2, 2);
    let opt = |bit: u8| -> Option<u32> {
        if MASK & (1 << bit) != 0 {
            Some(any_le(NMAX + 2))
        } else {
            None
        }
    };
    let acc = acc_from_table::<LO, HI>();
    let g = OsuGiven {
        combo: any_opt_u32_le(3 * NMAX),
        large: any_opt_u32_le(3),
        small: any_opt_u32_le(3),
        ends: any_opt_u32_le(3),
        n300: opt(0),
        n100: opt(1),
        n50: opt(2),
        misses: any_opt_u32_le(NMAX + 2),
        acc: Some(acc),
        priority: any_priority(),
        passed: any_opt_u32_le(NMAX + 2),
        lazer: if kani::any() { Some(kani::any()) } else { None },
    };
    let st = osu_check(&sh, &g, 0);

    // C13: only accuracy (+ misses) given => no other distribution over the same objects is closer
    if MASK == 0 {
        let n = core::cmp::min(g.passed.unwrap_or(u32::MAX), sh.n_objects());
        let origin = osu_origin(&sh, g.lazer.unwrap_or(true));
        assert!(st.misses == core::cmp::min(s(g.misses), n), "C13 osu: misses as given");
        let mut other = st.clone();
        other.n300 = any_le(NMAX);
        other.n100 = any_le(NMAX);
        other.n50 = any_le(NMAX);
        kani::assume(other.n300 + other.n100 + other.n50 + other.misses == n);
        let target = acc.clamp(0.0, 100.0) / 100.0;
        let d_gen = (st.accuracy(origin) - target).abs();
        let d_other = (other.accuracy(origin) - target).abs();
        assert!(d_gen <= d_other + TIE_EPS, "C13 osu: generated accuracy is the closest achievable");
        kani::cover!(n >= 3 && st.n100 > 0 && st.n50 > 0, "mixed distribution");
    }
    kani::cover!(sh.n_objects() == NMAX, "largest shape");
    kani::cover!(sh.n_sliders > 0 && g.lazer != Some(false), "slider accuracy origin");
}

/// C13 only (one generate_state call): accuracy (+ optional misses) given, nothing else.
fn osu_c13<const LAZER: bool, const NMAX: u32, const LO: usize, const HI: usize>() {
    let sh = OsuShape::any(NMAX, 2, 2);
    let acc = acc_from_table::<LO, HI>();
    let misses = any_opt_u32_le(NMAX + 2);
    let priority = any_priority();
    let mut p = OsuPerformance::new(sh.attrs()).lazer(LAZER).hitresult_priority(priority).accuracy(acc);
    if let Some(m) = misses {
        p = p.misses(m);
    }
    let st = p.generate_state().unwrap();
    let n = sh.n_objects();
    let origin = osu_origin(&sh, LAZER);
    assert!(st.misses == core::cmp::min(s(misses), n), "C13 osu: misses as given");
    assert!(st.n300 + st.n100 + st.n50 + st.misses == n, "C13 osu: all objects distributed");
    let mut other = st.clone();
    other.n300 = any_le(NMAX);
    other.n100 = any_le(NMAX);
    other.n50 = any_le(NMAX);
    kani::assume(other.n300 + other.n100 + other.n50 + other.misses == n);
    let target = acc.clamp(0.0, 100.0) / 100.0;
    let d_gen = (st.accuracy(origin) - target).abs();
    let d_other = (other.accuracy(origin) - target).abs();
    assert!(d_gen <= d_other + TIE_EPS, "C13 osu: generated accuracy is the closest achievable");
    kani::cover!(n >= 2 && st.n300 < n && st.n300 + st.misses < n, "non-trivial distribution");
    kani::cover!(n == NMAX && st.misses > 0, "largest shape with misses");
    core::mem::forget(p);
}

#[kani::proof]
#[kani::unwind(5)]
pub fn c13_osu_stable_n3() {
    osu_c13::<false, 3, 0, 2>();
}

#[kani::proof]
#[kani::unwind(5)]
pub fn c13_osu_stable_n4() {
    osu_c13::<false, 4, 0, 2>();
}

#[kani::proof]
#[kani::unwind(5)]
pub fn c13_osu_lazer_n3() {
    osu_c13::<true, 3, 0, 2>();
}

#[kani::proof]
#[kani::unwind(5)]
pub fn c13_osu_stable_q() {
    osu_c13::<false, 5, 0, 2>();
}

#[kani::proof]
#[kani::unwind(5)]
pub fn c13_osu_lazer_q() {
    osu_c13::<true, 5, 0, 2>();
}

verif_replay_table!(verif_replay_c12;
    c13_osu_stable_q, c13_osu_lazer_q, c13_osu_stable_n4, c13_osu_lazer_n3, c13_osu_stable_n3,
    c12_osu_noacc_full, c12_taiko_noacc_full, c12_catch_noacc_full, c12_mania_noacc_full,
    c12_mania_acc_given_all, c12_mania_acc_missing_n320, c12_mania_acc_missing_n300,
    c12_mania_acc_missing_n200, c12_mania_acc_missing_n100, c12_mania_acc_missing_n50,
);
