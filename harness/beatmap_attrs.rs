// harness site: src/model/beatmap/attributes.rs
#![allow(dead_code, unused_imports, clippy::all, clippy::pedantic)]
