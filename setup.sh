#!/bin/sh
# Offline setup. Nothing is fetched; every check compiles /repo's current working tree with
# `cargo kani` into /verif/.cache (created on demand). This script verifies the tools and warms the
# eight parallel build slots (dependencies rosu-map / rosu-mods compiled once per slot) so that the
# first quick check does not pay for it.
set -e
cd "$(dirname "$0")"
mkdir -p .cache evidence replays
command -v cargo >/dev/null
cargo kani --version
cbmc --version
python3 -c 'import tomllib, json; tomllib.load(open("registry.toml","rb")); print("registry ok")'
chmod +x vcheck tools/run_seeded.sh tools_killsolvers.sh tools_killruns.sh 2>/dev/null || true
if [ -d /repo ]; then
  for i in 0 1 2 3 4 5 6 7; do
    ( cd /repo && CARGO_NET_OFFLINE=true timeout 600 cargo kani -Z stubbing --target-dir /verif/.cache/kt-default-$i --harness c19_contained_columns >/dev/null 2>&1 || true ) &
  done
  wait
fi
echo "setup done"
