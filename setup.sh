#!/bin/sh
# Offline setup: nothing to fetch or build ahead of time — every check compiles /repo's current
# working tree with `cargo kani` into /verif/.cache (created on demand). This script only verifies
# that the tools the checks need are present.
set -e
cd "$(dirname "$0")"
mkdir -p .cache evidence replays
command -v cargo >/dev/null
cargo kani --version
cbmc --version
python3 -c 'import tomllib, json; tomllib.load(open("registry.toml","rb")); print("registry ok")'
chmod +x vcheck
